#!/bin/sh
# Offline setup: nothing to build (pure Python, stdlib only). Verify the interpreter,
# that pytrs is importable from /repo, and run the reference-model self-tests.
cd "$(dirname "$0")" || exit 2
export PYTHONDONTWRITEBYTECODE=1
/venv/bin/python - <<'PY' || exit 1
import sys
sys.path.insert(0, '/repo')
import pytrs, os
assert os.path.realpath(pytrs.__file__).startswith('/repo/'), pytrs.__file__
print('pytrs', pytrs.__version__, 'from', pytrs.__file__, 'python', sys.version.split()[0])
PY
if [ -d selftest ]; then /venv/bin/python -m selftest.run || exit 1; fi
mkdir -p evidence replays .work
echo setup ok
