import pytrs, copy, itertools, collections, sys
def snapT(t): return (t.trs,t.desc,t.pp_desc,tuple(t.lots),tuple(t.qqs),tuple(sorted(t.lot_acres.items())),tuple(t.aliquots_whole),tuple(t.w_flags),tuple(map(tuple,t.w_flag_lines)),tuple(t.e_flags),tuple(map(tuple,t.e_flag_lines)),t.parse_complete,t.orig_index,
   t.config.decompile_to_text(), t.clean_qq,t.suppress_lot_divs,t.qq_depth,t.qq_depth_min,t.qq_depth_max,t.break_halves,t.parse_qq)
def snapD(d): 
    uids=[t._Tract__uid for t in d.tracts]; rank=tuple(sorted(range(len(uids)), key=lambda i:uids[i]))
    return (d.pp_desc,d.current_layout,tuple(d.w_flags),tuple(map(tuple,d.w_flag_lines)),tuple(d.e_flags),tuple(map(tuple,d.e_flag_lines)),tuple(map(snapT,d.tracts)),rank,
      d.config.decompile_to_text(), d.layout,d.parse_qq,d.clean_qq,d.segment,d.sec_within,d.default_ns,d.default_ew,d.qq_depth,d.qq_depth_min,d.qq_depth_max,d.break_halves,d.ocr_scrub,d.sec_colon_required,d.sec_colon_cautious)
OPS={
 'parse': lambda d: d.parse(),
 'parse_nc': lambda d: d.parse(commit=False),
 'parse_nc_seg': lambda d: d.parse(commit=False, segment=True, parse_qq=False),
 'parse_pq': lambda d: d.parse(parse_qq=True),
 'parse_nopq': lambda d: d.parse(parse_qq=False),
 'parse_s': lambda d: d.parse(default_ns='s'),
 'parse_copy': lambda d: d.parse(layout='copy_all'),
 'parse_cq': lambda d: d.parse(clean_qq=True),
 'ptracts': lambda d: d.parse_tracts(),
 'ptracts_d1': lambda d: d.parse_tracts(qq_depth=1),
 'pp_nc': lambda d: d.preprocess(commit=False, default_ns='s'),
 'pp_c': lambda d: d.preprocess(commit=True),
 'cfg_cq': lambda d: setattr(d,'config','clean_qq,parse_qq'),
 'cfg_0': lambda d: setattr(d,'config',''),
 'sort': lambda d: d.sort_tracts('s.rev'),
 'filter_drop': lambda d: d.filter(lambda t: t.sec_num and t.sec_num%2==0, drop=True),
}
NC={'parse_nc','parse_nc_seg','pp_nc'}
seeds=[('T154-R97W Sec 14: Lots 1, 1, NE, NE/4, Sec 5 - 3: N2, xyz T1S-R2E', dict(parse_qq=True)), ('T154N-R97W Sec 14: NE/4', dict()), ('NE/4 of Section 14, foo bar', dict(wait_to_parse=True))]
depth=int(sys.argv[1])
tot_states=0; tot_trans=0; viol=collections.Counter(); ex={}
for txt,kw in seeds:
    root=pytrs.PLSSDesc(txt, **kw)
    seen={snapD(root):()}; frontier=[(root,())]
    for lvl in range(depth):
        nxt=[]
        for obj,hist in frontier:
            s0=snapD(obj)
            for name,op in OPS.items():
                o=copy.deepcopy(obj)
                try: op(o)
                except Exception as e:
                    viol[('exc',name,type(e).__name__)]+=1; ex.setdefault(('exc',name),hist+(name,)); continue
                tot_trans+=1
                s1=snapD(o)
                if name in NC and s1!=s0: viol[('nocommit changed',name)]+=1; ex.setdefault(('nc',name),hist+(name,))
                # idempotence
                o2=copy.deepcopy(o); op(o2)
                if name not in ('filter_drop',) and snapD(o2)!=s1: viol[('not idempotent',name)]+=1; ex.setdefault(('idem',name),hist+(name,))
                if s1 not in seen:
                    seen[s1]=hist+(name,); nxt.append((o,hist+(name,)))
        frontier=nxt
    print(repr(txt[:30]), 'states',len(seen),'frontier',len(frontier)); tot_states+=len(seen)
print('states',tot_states,'transitions',tot_trans)
for k,v in viol.items(): print(k,v,ex.get((k[0][:3] if k[0]!='nocommit changed' else 'nc',k[1])) or ex.get(('idem',k[1])) or ex.get(('exc',k[1])))
