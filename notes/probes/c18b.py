import pytrs, itertools, collections
from pytrs import TRS, TRSList, Tract, TractList, PLSSDesc
def mk():
    a=Tract('NE/4',trs='154n97w14',parse_qq=True); b=Tract('Northeast Quarter',trs='154n97w14',parse_qq=True); c=Tract('W/2',trs='154n97w15'); d=Tract('x',trs='XXXzXXXzXX'); e=Tract('y'); f=Tract('z',trs='___z97w01'); g=Tract('NE/4',trs='1s2e14',parse_qq=True)
    return [a,b,c,d,e,f,g]
POOL=mk()
bad=collections.Counter(); ex={}; n=0
def ids(xs): return [id(x) for x in xs]
PRED={'even':lambda t:(t.sec_num or 0)%2==0,'t154':lambda t:t.twp_num==154,'all':lambda t:True,'none':lambda t:False,'parsed':lambda t:t.parse_complete}
for L in range(0,5):
  for idx in itertools.product(range(len(POOL)), repeat=L):
    xs=[POOL[i] for i in idx]
    # filter
    for pn,p in PRED.items():
        for drop in (False,True):
            tl=TractList(xs); n+=1
            got=tl.filter(p,drop=drop)
            sel=[x for x in xs if p(x)]; rem=[x for x in xs if not p(x)] if drop else xs
            if ids(got)!=ids(sel) or ids(tl)!=ids(rem): bad['filter']+=1; ex.setdefault('filter',(idx,pn,drop))
    # filter_errors
    for twp,rge,sec,undef in itertools.product((True,False),repeat=4):
        for drop in (False,True):
            tl=TractList(xs); n+=1
            got=tl.filter_errors(twp,rge,sec,undef,drop)
            def crit(t):
                err=(twp and t.twp_num is None and not t.twp_undef) or (rge and t.rge_num is None and not t.rge_undef) or (sec and t.sec_num is None and not t.sec_undef)
                und=undef and ((twp and t.twp_undef) or (rge and t.rge_undef) or (sec and t.sec_undef))
                return bool(err or und)
            sel=[x for x in xs if crit(x)]; rem=[x for x in xs if not crit(x)] if drop else xs
            if ids(got)!=ids(sel) or ids(tl)!=ids(rem): bad['filter_errors']+=1; ex.setdefault('filter_errors',(idx,twp,rge,sec,undef,drop))
    # duplicates
    for method in ('instance','lots_qqs','desc','trs','default'):
        for drop in (False,True):
            tl=TractList(xs); n+=1
            got=tl.filter_duplicates(method,drop)
            seen_i=set(); seen_k=set(); sel=[]
            for x in xs:
                dup=False
                if id(x) in seen_i: dup=True
                seen_i.add(id(x))
                m='instance' if method=='default' else method
                key=None
                if m=='lots_qqs' and x.parse_complete: key=(x.trs,tuple(sorted(set(x.lots_qqs))))
                if m=='desc': key=(x.trs,x.pp_desc.strip())
                if m=='trs': key=x.trs
                if key is not None:
                    if key in seen_k: dup=True
                    seen_k.add(key)
                if dup: sel.append(x)
            # remainder: remove by position
            if drop:
                selpos=[]; seen_i=set(); seen_k=set()
            if ids(got)!=ids(sel): bad['dups:'+method]+=1; ex.setdefault('dups:'+method,(idx,drop,[t.trs for t in got],[t.trs for t in sel]))
            if len(got)+len(tl)!=len(xs)+(0 if drop else len(got)): bad['dups-count']+=1
    # group_by
    for attrs in (['twprge'],['sec'],['twprge','sec'],['twp','rge','sec'],'twprge'):
        tl=TractList(xs); n+=1
        g=tl.group_by(attrs)
        flat=[]
        for k,v in g.items():
            for t in v:
                kk=k if isinstance(k,tuple) else (k,)
                al=attrs if isinstance(attrs,list) else [attrs]
                if tuple(getattr(t,a) for a in al)!=kk: bad['group key']+=1
                flat.append(t)
        if sorted(ids(flat))!=sorted(ids(xs)): bad['group partition']+=1; ex.setdefault('group partition',(idx,attrs))
        for k,v in g.items():
            pos=[i for i,x in enumerate(xs) if any(x is y for y in v)]
        un=TractList.unpack_group(g)
        if sorted(ids(un))!=sorted(ids(xs)): bad['unpack']+=1
        gn=tl.group_by_nested(attrs)
        un2=TractList.unpack_group(gn)
        if sorted(ids(un2))!=sorted(ids(xs)): bad['unpack nested']+=1; ex.setdefault('unpack nested',(idx,attrs))
print(n,dict(bad))
for k,v in ex.items(): print(k,v)
