import pytrs, itertools, collections, warnings
from pytrs import TRS, TRSList, Tract, TractList
POOL=['2n3w05','2s3w05','5n1e01','5s1e36','2n3w36','XXXzXXXzXX','___z___z__','2nXXXz05','___z3w05','5n1eXX','0n0w00']
def rank(el, var, method):
    if var=='t':
        num,d=el.twp_num, el.twp_ns
        if num is None: return None
        if method in (None,'num'): return num
        v = -num if d=='n' else num      # north-to-south ascending
        return v if method=='ns' else -v
    if var=='r':
        num,d=el.rge_num, el.rge_ew
        if num is None: return None
        if method in (None,'num'): return num
        v = -num if d=='w' else num      # west-to-east ascending
        return v if method=='we' else -v
    if var=='s':
        return el.sec_num
def ref_sort(lst, key, uid=None):
    lst=list(lst)
    for k in key.split(','):
        parts=k.split('.')
        var=parts[0]; rev=parts[-1] in('rev','reverse'); method=parts[1] if len(parts)>1 and parts[1] not in ('rev','reverse') else None
        if var=='i':
            kf=(lambda e: uid(e)) if uid else (lambda e:0)
        else:
            kf=lambda e,var=var,method=method: (1,0) if rank(e,var,method) is None else (0,rank(e,var,method))
        lst.sort(key=kf, reverse=rev)
    return lst
SUB=['i','t','t.num','t.ns','t.sn','r','r.num','r.ew','r.we','s','s.num']
KEYS=[s+r for s in SUB for r in ('','.rev','.reverse')]
bad=collections.Counter(); ex={}; n=0
for L in [1,2,3]:
  for combo in itertools.product(POOL, repeat=L):
    for nk in [1,2]:
      for ks in itertools.product(KEYS, repeat=nk):
        if nk==2 and L<3 : continue
        if nk==2 and (ks[0].endswith('reverse') or ks[1].endswith('reverse')): continue
        key=','.join(ks); n+=1
        tl=TRSList(combo); orig=list(tl)
        tl.custom_sort(key)
        want=ref_sort(orig,key)
        if [id(x) for x in tl]!=[id(x) for x in want]:
            bad[('trs',key)]+=1; ex.setdefault(('trs',key),(combo,[x.trs for x in tl],[x.trs for x in want]))
        tr=[Tract('x',trs=c) for c in combo]
        order=list(reversed(tr)) if L>1 else tr
        tl=TractList(order); tl.custom_sort(key)
        want=ref_sort(order,key,uid=lambda e:tr.index(e))
        if [id(x) for x in tl]!=[id(x) for x in want]:
            bad[('tract',key)]+=1; ex.setdefault(('tract',key),(combo,[x.trs for x in tl],[x.trs for x in want]))
print(n, len(bad))
for k,v in list(bad.items())[:20]: print(k,v,ex[k])
for k in ['x','q.num','t.ew','r.ns','s.ns','i.ew','', 't,,s','sec','xs','t.foo','t.num.rev.x']:
    tl=TRSList(POOL)
    with warnings.catch_warnings(record=True) as w:
        warnings.simplefilter('always')
        try: tl.custom_sort(k); print(repr(k),'accepted', [str(x.message)[:40] for x in w])
        except Exception as e: print(repr(k), type(e).__name__, e)
