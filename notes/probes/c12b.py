import pytrs, re, collections, itertools
from pytrs import TRS, trs_to_dict, Tract
STD=re.compile(r'^(?P<twp>\d{1,3}[nsNS]|XXXz|___z)(?P<rge>\d{1,3}[ewEW]|XXXz|___z)(?P<sec>\d{2}|XX|__)?$')
def expect(s):
    if s in ('',None): return '___z___z__'
    m=STD.match(s)
    if not m: return 'XXXzXXXzXX'
    twp=m['twp']; rge=m['rge']; sec=m['sec']
    twp = twp.lower() if twp[0].isdigit() else twp
    rge = rge.lower() if rge[0].isdigit() else rge
    if sec is None: sec='XX'
    return twp+rge+sec
valid=['154n97w14','1s2e01','12n3w36','XXXzXXXzXX','___z___z__','154nXXXz14','___z97w__','154n97wXX','154n97w']
alphabet='0123456789nsewXz_NSEW -a'
seen=set(); bad=collections.Counter(); ex=collections.defaultdict(list)
def check(s):
    if s in seen: return
    seen.add(s)
    for use_cache in (True,False):
        TRS._USE_CACHE=use_cache
        t=TRS(s); want=expect(s)
        outs={'TRS':t.trs,'dict':trs_to_dict(s)['trs'],'Tract':Tract('x',trs=s).trs,'idem':TRS(t.trs).trs}
        for k,o in outs.items():
            if o!=want:
                bad[k]+=1
                if len(ex[k])<6: ex[k].append((s,o,want))
        # decomposition
        if t.twp+t.rge+t.sec!=t.trs: bad['decomp']+=1
        if (t.twp_num is not None) != t.twp[0].isdigit(): bad['num']+=1
    TRS._USE_CACHE=True
def edits(v):
    yield v
    for i in range(len(v)+1):
        for c in alphabet: yield v[:i]+c+v[i:]
        if i<len(v):
            yield v[:i]+v[i+1:]
            for c in alphabet: yield v[:i]+c+v[i+1:]
for v in valid:
    for e1 in edits(v):
        check(e1)
print(len(seen), dict(bad))
for k,v in ex.items():
    for e in v: print(k,e)
# constructor side
n=0; b=0
for twp,rge,sec,ns,ew in itertools.product([0,1,9,10,99,100,154,999],[0,1,97,999],[0,1,9,10,36,99],'ns','ew'):
    want=f"{twp}{ns}{rge}{ew}{sec:02d}"
    encs=[(twp,rge,sec,ns,ew),(str(twp),str(rge),str(sec),ns,ew),(f"{twp}{ns}",f"{rge}{ew}",sec,None,None),(f"{twp}{ns.upper()}",f"{rge}{ew.upper()}",str(sec),'s' if ns=='n' else 'n','e'),(f"{twp:03d}",f"{rge:03d}",f"{sec:02d}",ns,ew)]
    for a,bb,c,dn,de in encs:
        n+=1
        t=TRS.from_twprgesec(a,bb,c,default_ns=dn,default_ew=de)
        if t.trs!=want or (t.twp_num,t.twp_ns,t.rge_num,t.rge_ew,t.sec_num)!=(twp,ns,rge,ew,sec):
            b+=1
            if b<6: print('CONS',(a,bb,c,dn,de),t.trs,want)
print('constructor',n,b)
