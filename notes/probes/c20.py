import pytrs, itertools, collections
# reuse c01 generator
import importlib.util, sys
from gen01 import *
fails=collections.Counter(); ex=collections.defaultdict(list); n=0
def tr(d): return [(t.trs,t.desc) for t in d.tracts]
for layout in ['TRS_desc','TR_desc_S','S_desc_TR','desc_STR']:
  for groups in grp_opts:
    if any(g[2]==2 for g in groups): continue
    for trsp in range(len(TR_SPELL)):
      for secw in SECW[:5]:
        for sep in [', ','; ','\n',' ']:
          for conn in [' of ']:
            txt, exp = render(layout, groups, trsp, secw, sep, conn)
            n+=1
            base=pytrs.PLSSDesc(txt)
            for mode in ['segment','sec_colon_required','sec_colon_cautious']:
                try:
                    d=pytrs.PLSSDesc(txt, config=mode)
                    ok = tr(d)==tr(base)
                    if mode!='segment' and layout in ('TRS_desc','S_desc_TR'):
                        pass
                    got=(tr(d), d.w_flags, d.e_flags)
                except Exception as e:
                    ok=False; got=repr(e)
                if not ok:
                    fails[(mode,layout,len(groups))]+=1
                    if len(ex[(mode,layout)])<3: ex[(mode,layout)].append((txt,got,tr(base)))
print(n)
for k,v in sorted(fails.items(), key=str): print(k,v)
for k,v in ex.items():
    for e in v: print(k,e)
