import pytrs
from gen01 import *
bad=0;n=0
def tr(d): return [(t.trs,t.desc) for t in d.tracts]
for layout in ['TRS_desc','S_desc_TR']:
  for groups in grp_opts:
    if any(g[2]==2 for g in groups): continue
    for trsp in range(len(TR_SPELL)):
      for secw in SECW[:5]:
        for sep in [', ','; ','\n',' ']:
            txt, exp = render(layout, groups, trsp, secw, sep, ' of ')
            txt_nc = txt.replace(':','')
            n+=1
            base=pytrs.PLSSDesc(txt_nc)
            c=pytrs.PLSSDesc(txt_nc, config='sec_colon_cautious')
            r=pytrs.PLSSDesc(txt_nc, config='sec_colon_required')
            ok1 = tr(c)==tr(base) and any(f.startswith('pulled_sec_without_colon') for f in c.w_flags)
            ok2 = len(r.tracts)==1 and r.tracts[0].desc.replace(' ','') in r.pp_desc.replace(' ','')  and len(r.tracts[0].desc)>=len(r.pp_desc)-3
            if not (ok1 and ok2):
                bad+=1
                if bad<6: print(repr(txt_nc), ok1, ok2, '\n  base',tr(base),'\n  caut',tr(c),c.w_flags,'\n  req',tr(r), r.e_flags)
print(n,bad)
