import pytrs, itertools, collections, re, sys
from multiprocessing import Pool
V=['T154N-R97W','T1S-R2E','Sec','Section','14','15',':',',','-','and','of','NE/4','Lots 1 - 3','ALL','\n','Township 7 North','Range 9 West','less and except','§','xyz','in','.','&','through','154N','97W','N/2','T155N','R98W']
CFGS=[None,'sec_colon_cautious','segment,sec_within','sec_colon_required','copy_all']
STD=re.compile(r'^(\d{1,3}[ns]|XXXz)(\d{1,3}[ew]|XXXz)(\d{2}|XX)$')
def check(args):
    txt,cfg=args
    out=[]
    try:
        d=pytrs.PLSSDesc(txt, config=cfg, parse_qq=True)
    except Exception as e:
        return [('C03', type(e).__name__+':'+str(e)[:50])]
    if len(d.tracts)<1: out.append(('C03','no tract'))
    for i,t in enumerate(d.tracts):
        if not STD.match(t.trs): out.append(('C09','trs '+t.trs))
        if t.twp+t.rge+t.sec!=t.trs or t.twprge!=t.twp+t.rge: out.append(('C09','decomp'))
        if t.orig_desc!=txt: out.append(('C09','orig_desc'))
        if t.orig_index!=i: out.append(('C09','orig_index'))
    for obj in [d]+list(d.tracts):
        for fl,fll in [(obj.w_flags,obj.w_flag_lines),(obj.e_flags,obj.e_flag_lines)]:
            if not all(isinstance(f,str) for f in fl): out.append(('C10','flag not str'))
            if len(fl)!=len(fll): out.append(('C10','len mismatch %d %d'%(len(fl),len(fll))))
            elif not all(isinstance(x,tuple) and len(x)==2 and all(isinstance(y,str) for y in x) for x in fll): out.append(('C10','flagline type'))
            elif [x[0] for x in fll]!=list(fl): out.append(('C10','pairing'))
    for t in d.tracts:
        for f in d.w_flags:
            if f not in t.w_flags: out.append(('C10','wflag not on tract')); break
        for f in d.e_flags:
            if f not in t.e_flags: out.append(('C10','eflag not on tract')); break
    if any(t.trs_is_error() for t in d.tracts) and not d.e_flags: out.append(('C10','error trs no eflag'))
    full=[t for t in d.tracts if t.desc==d.pp_desc]
    if len(full)>1: out.append(('C11','dup full-text tracts %d'%len(full)))
    if d.current_layout=='copy_all':
        if len(d.tracts)!=1 or d.tracts[0].desc!=d.pp_desc: out.append(('C11','copy_all not single/full'))
    return out
if __name__=='__main__':
    depth=int(sys.argv[1])
    texts=set()
    for L in range(0,depth+1):
        for seq in itertools.product(V, repeat=L):
            texts.add(' '.join(seq))
    jobs=[(t,c) for t in sorted(texts) for c in CFGS]
    print(len(texts), len(jobs)); sys.stdout.flush()
    cnt=collections.Counter(); ex={}
    with Pool(16) as p:
        for (a,res) in zip(jobs, p.imap(check, jobs, chunksize=500)):
            for r in set(res):
                cnt[r]+=1
                if r not in ex or len(a[0])<len(ex[r][0]): ex[r]=a
    for k,v in sorted(cnt.items(), key=lambda kv:-kv[1]): print(v,k,ex[k])
