import sys
from c16d import run
import itertools
if __name__=='__main__':
    units=[' ','\t','\n','.',',',';',':','-','–','/','&','(',')','[','½','¼','1','0','2','4','N','S','E','W','T','R','o','f','t','h','e','a','n','d','l','L','x',
           '. ',', ','; ',': ','- ',' of ',' the ','and ',' to ',' thru ',' through ','1 ','1, ','14','Sec ','Section ','Lot ','Lots ','N/2','NE','NE/4','N2','North ','Half ','Quarter ','One ','T154N-R97W\n','T154N','R97W','154N-97W ','P.M. ','Principal Meridian ','less and except ','well ','(40.00) ', 'of the ']
    ctx=[('T154N-R97W','Sec 14: NE/4'),('T154N-R97W Sec 14',': NE/4'),('T154N-R97W Sec 14: Lot 1','x'),('T154N-R97W Sec 14: N/2',' NE/4'),('',''),('NE/4 of Section 14',', T154N-R97W'),('T154N-R97W Sec 14: ','')]
    tier=sys.argv[1]
    if tier=='single':
        fams=[(u,p,s) for u in units for p,s in ctx]
    else:
        fams=[(u1+u2,p,s) for u1 in units for u2 in units if u1!=u2 for p,s in ctx[:int(sys.argv[2])]]
    jobs={}
    for u,p,s in fams:
        n=4
        while True:
            txt=p+u*n+s
            if len(txt)>300: break
            jobs[txt]=(u,p,s,n); n*=2
    print(len(fams),'families',len(jobs),'jobs'); sys.stdout.flush()
    res=run(list(jobs), limit=4.0)
    byfam={}
    for txt,(dt,err) in res.items():
        u,p,s,n=jobs[txt]; byfam.setdefault((u,p,s),[]).append((n,round(dt,2),err))
    slow=0; errs=0
    for k,v in byfam.items():
        v.sort()
        if any(e and e!='timeout' for n,dt,e in v): errs+=1; print('ERR',k,v)
        if any(dt>0.5 for n,dt,e in v): slow+=1; print('SLOW',k, [(n,dt) for n,dt,e in v])
    print('slow families',slow,'err',errs)
