import pytrs, itertools, collections
TR_SPELL = [
 lambda t,ns,r,ew: f"T{t}{ns}-R{r}{ew}",
 lambda t,ns,r,ew: f"Township {t} {'North' if ns=='N' else 'South'}, Range {r} {'West' if ew=='W' else 'East'}",
 lambda t,ns,r,ew: f"Twp. {t} {ns}., Rge. {r} {ew}.",
 lambda t,ns,r,ew: f"{t}{ns}-{r}{ew}",
 lambda t,ns,r,ew: f"t{t}{ns.lower()}-r{r}{ew.lower()}",
 lambda t,ns,r,ew: f"T{t}{ns} R{r}{ew}",
 lambda t,ns,r,ew: f"T. {t} {ns}., R. {r} {ew}.",
 lambda t,ns,r,ew: f"Township {t} {'North' if ns=='N' else 'South'}, Range {r} {'West' if ew=='W' else 'East'}, of the 5th P.M.",
]
SECW = ['Sec ', 'Section ', 'Sec. ', 'Sect. ', '§ ', 'Sec', 'SECTION ', 'section ']
BLOCKS = ['NE/4', 'Lots 1 - 3, S/2NE/4', 'ALL', 'N/2, SW/4', 'That part lying north of the river', 'Beginning at the NE corner thereof; thence South 660 feet']
def secgrp(kind, a, b, word, plural):
    if kind=='single': return f"{word}{a}", [a]
    w = word
    if plural:
        w = {'Sec ':'Secs ','Section ':'Sections ','Sec. ':'Secs. ','Sect. ':'Sects. ','§ ':'§ ','Sec':'Secs','SECTION ':'SECTIONS ','section ':'sections '}[word]
    if kind=='and': return f"{w}{a} and {b}", [a,b]
    if kind=='thru': return f"{w}{a} - {b}", list(range(a,b+1))
def render(layout, groups, trsp, secw, sep, conn):
    # groups: list of (t,ns,r,ew, [ (kind,a,b,block) ])
    out=[]; exp=[]
    for (t,ns,r,ew,secs) in groups:
        tr = TR_SPELL[trsp](t,ns,r,ew)
        trs = f"{t}{ns.lower()}{r}{ew.lower()}"
        parts=[]
        for (kind,a,b,block) in secs:
            stxt, nums = secgrp(kind,a,b,secw,True)
            for n in nums: exp.append((f"{trs}{n:02d}", block))
            if layout in ('TRS_desc','S_desc_TR'):
                parts.append(f"{stxt}: {block}")
            else:
                parts.append(f"{block}{conn}{stxt}")
        if layout=='TRS_desc': out.append(tr + sep + sep.join(parts))
        elif layout=='TR_desc_S': out.append(tr + sep + sep.join(parts))
        elif layout=='S_desc_TR': out.append(sep.join(parts) + sep + tr)
        elif layout=='desc_STR': out.append(sep.join(parts) + sep + tr)
    return sep.join(out), exp
grp_opts=[
 [(154,'N',97,'W',[('single',14,None,'NE/4')])],
 [(154,'N',97,'W',[('single',14,None,'NE/4'),('thru',15,17,'ALL')])],
 [(154,'N',97,'W',[('and',1,2,'Lots 1 - 3, S/2NE/4')]),(7,'S',9,'E',[('single',36,None,'N/2, SW/4')])],
 [(1,'S',2,'E',[('single',5,None,'That part lying north of the river'),('single',6,None,'ALL')]),(155,'N',102,'W',[('thru',1,3,'NE/4')])],
]
