import pytrs, itertools, collections
ELEMS = ['Lot 1','Lots 2 - 4','Lot 5(38.12)','Lot 6 [40.00]','N/2 of Lot 7','S/2 of Lots 8 and 9','NE/4','S/2NW/4','ALL','Lots 1, 3','W/2SE/4', 'Lot 5(39.00)', 'N/2 Lot 11']
SEPS = [', ','; ','\n',',',';']
def res(txt, cfg=None):
    t=pytrs.Tract(txt, parse_qq=True, config=cfg)
    return t.lots, t.qqs, dict(t.lot_acres), t.w_flags
fails=collections.Counter(); ex=collections.defaultdict(list); n=0
for cfg in [None,'suppress_lot_divs','clean_qq','qq_depth.1']:
  single={e:res(e,cfg) for e in ELEMS}
  for L in [2,3]:
    for seq in itertools.product(ELEMS, repeat=L):
      for sep in SEPS:
        txt=sep.join(seq); n+=1
        lots,qqs,acres,wf=res(txt,cfg)
        elots=[x for e in seq for x in single[e][0]]; eqqs=[x for e in seq for x in single[e][1]]
        if (lots,qqs)!=(elots,eqqs):
            fails[(cfg,sep)]+=1
            if len(ex[(cfg,sep)])<4: ex[(cfg,sep)].append((txt,lots,qqs,elots,eqqs))
print(n)
for k,v in sorted(fails.items(), key=str): print(k,v)
for k,v in ex.items():
    for e in v: print(k,e)
