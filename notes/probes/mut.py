import subprocess, sys, os, re
REPO='/tmp/scratch/pytrs'
MUTS=[
 # (name, file, old, new, probe cmd, grep for detection)
 ('C01-deduce-threshold','pytrs/parser/plssdesc/plss_parse.py','if len(string_between) >= 4:','if len(string_between) >= 6:','c01'),
 ('C01-cleanup-of','pytrs/parser/plssdesc/plss_parse.py',"cull_list = [' the', ' all in', ' all of', ' of', ' in', ' and']","cull_list = [' the', ' all in', ' all of', ' in', ' and']",'c01'),
 ('C01-sec-pop','pytrs/parser/plssdesc/plss_parse.py','self.working_sec = self.working_sec_list.pop(0)','self.working_sec = self.working_sec_list.pop()','c01'),
 ('C01-illegal-words','pytrs/parser/plssdesc/plss_parse.py',"illegal = (' of', ' said', ' in', ' within')","illegal = (' of', ' said', ' in', ' within', ',')",'c01'),
 ('C02-subdivide-E','pytrs/parser/tract/aliquot_parse.py','_E: (_NE, _SE),','_E: (_NE, _NW),','c02'),
 ('C02-depth-le','pytrs/parser/tract/aliquot_parse.py','elif comp in QQ_HALVES and (i < qq_depth_min or break_halves):','elif comp in QQ_HALVES and (i <= qq_depth_min or break_halves):','c02'),
 ('C02-trunc','pytrs/parser/tract/aliquot_parse.py','component_list = component_list[:qq_depth_max]','component_list = component_list[:qq_depth_max + 1]','c02'),
 ('C02-singlepass','pytrs/parser/tract/aliquot_parse.py','    while aliquot_components != aliquot_copy:\n        aliquot_copy = aliquot_components.copy()','    for _ in range(1):\n        aliquot_copy = aliquot_components.copy()','c02'),
 ('C05-desc-offby1','pytrs/parser/unpack/unpackers.py',"                    end, start, step = end_of_list + 1, start_of_list + 1, 1\n                    flag = 'nonsequential_sections'","                    end, start, step = end_of_list + 1, start_of_list, 1\n                    flag = 'nonsequential_sections'",'c05'),
 ('C05-thru-to','pytrs/parser/rgxlib/misc.py',"r'([\\-–—]|th[rough]{3,6}\\.?|thru\\.?|to)'","r'([\\-–—]|th[rough]{3,6}\\.?|thru\\.?)'",'c05'),
 ('C06-placeholder','pytrs/parser/tract/tract_parse.py','remaining_text = f"{p1};;{p2}"','remaining_text = f"{p1}{p2}"','c06'),
 ('C06-aliq-through','pytrs/parser/unpack/unpackers.py','self.aliquots_through = len(working_lot_list) - word_lot_encountered','self.aliquots_through = max(1, len(working_lot_list) - word_lot_encountered - 1)','c06'),
 ('C07-order','pytrs/parser/tract/tract_preprocess.py','SCRUBBER_REGEXES = (\n    ne_regex,\n    nw_regex,\n    se_regex,\n    sw_regex,\n    n2_regex,\n    s2_regex,\n    e2_regex,\n    w2_regex,\n)','SCRUBBER_REGEXES = (\n    n2_regex,\n    s2_regex,\n    e2_regex,\n    w2_regex,\n    ne_regex,\n    nw_regex,\n    se_regex,\n    sw_regex,\n)','c07'),
 ('C08-default-first','pytrs/parser/unpack/unpackers.py',"    ns = default_ns\n    if groups['ns'] is not None:\n        ns = groups['ns'][0]","    ns = default_ns\n    if groups['ns'] is not None and default_ns is None:\n        ns = groups['ns'][0]",'c08'),
 ('C17-sign','pytrs/parser/containers/containers.py',"            if ns == 's':\n                multiplier = 1\n            elif ns == 'n':\n                multiplier = -1","            if ns == 's':\n                multiplier = -1\n            elif ns == 'n':\n                multiplier = 1",'c17'),
 ('C17-max','pytrs/parser/containers/containers.py','default_twp = get_max("twp_num") + 1','default_twp = get_max("twp_num")','c17'),
 ('C09-uid','pytrs/parser/plssdesc/plss_parse.py','                self.next_tract_uid += 1\n        return new_tracts','            self.next_tract_uid += 1\n        return new_tracts','soup'),
 ('C10-handdown','pytrs/parser/plssdesc/plss_parse.py','            tract.e_flags.extend(self.e_flags)\n','            pass\n','soup'),
 ('C04-unused','pytrs/parser/plssdesc/plss_parse.py','            self.unused_components.append((len(self.tract_components), block))','            pass','c04'),
 ('C14-ppdesc','pytrs/parser/tract/tract.py','            # Pull the preprocessed text from the parser.\n            self.pp_desc = parser.text\n','            pass\n        self.pp_desc = parser.text\n','c14'),
]

MUTS += [
 ('C06x-dupfind','pytrs/parser/tract/tract_parse.py','                if elem in lst[i:]:','                if elem in lst[i+1:]:','c06f'),
 ('C06x-acre-pos','pytrs/parser/unpack/unpackers.py','    i = start_of_rightmost(multilot_mo)\n    j = multilot_mo.end(0)','    i = multilot_mo.start(0)\n    j = multilot_mo.end(0)','c06f'),
 ('C06x-suppress','pytrs/parser/tract/tract_parse.py','            if not suppress_lot_divs and leading_aliquot is not None:','            if leading_aliquot is not None:','c06'),
 ('C06x-word-enc','pytrs/parser/unpack/unpackers.py',"            if lot_mo['word_lot_rightmost'] is not None and not found_through:","            if lot_mo['word_lot_rightmost'] is not None:",'c06'),
 ('C12x-cachekey','pytrs/parser/trs/trs.py','            TRS.__CACHE[trs] = dct','            TRS.__CACHE[trs[:-2]] = dct','c15'),
 ('C15x-shared','pytrs/parser/trs/trs.py','        dct = TRS.trs_to_dict(trs)\n        if TRS._USE_CACHE:','        dct = TRS.trs_to_dict(trs)\n        TRS._LAST = dct\n        if TRS._USE_CACHE:','c15'),
 ('C15x-import-default','pytrs/parser/plssdesc/plss_preprocess.py','        default_ns: str = None,\n        default_ew: str = None,\n        ocr_scrub: bool = False) -> tuple:','        default_ns: str = MasterConfig.default_ns,\n        default_ew: str = MasterConfig.default_ew,\n        ocr_scrub: bool = False) -> tuple:','c15'),
 ('C15x-cache-handout','pytrs/parser/trs/trs.py','        if isinstance(trs, TRS):\n            trs = trs.trs\n        dct = {','        if isinstance(trs, TRS):\n            trs = trs.trs\n        if TRS._USE_CACHE and trs in TRS._TRS__CACHE:\n            return TRS._TRS__CACHE[trs]\n        dct = {','c15'),
]
env=dict(os.environ, PYTHONPATH=REPO)
def sh(cmd, **kw): return subprocess.run(cmd, shell=True, capture_output=True, text=True, env=env, **kw)
only=sys.argv[1:] 
for name,f,old,new,probe in MUTS:
    if only and not any(o in name for o in only): continue
    p=os.path.join(REPO,f); s=open(p).read()
    if old not in s: print(name,'PATTERN NOT FOUND'); continue
    open(p,'w').write(s.replace(old,new,1))
    t=sh(f'cd {REPO} && /venv/bin/python -m pytest -q -p no:cacheprovider -x 2>&1 | tail -1')
    tests=t.stdout.strip()
    cmd={'c01':'python c01.py | grep -c TXT','c02':'python c02.py | head -1','c05':'python c05.py | grep -E "sec|^[0-9]" | head -6','c06':'python c06.py | head -3','c07':'python c07.py | head -3','c08':'python c08.py | head -3','c17':'python c17.py | head -2','soup':'python soup.py 3 | head -4','c04':'python c04.py | grep -v "5th P.M" | head -2','c14':'python c14b.py 3 | tail -3','c15':'python c15.py | tail -4','c06f':'python c06f.py | tail -4'}[probe].replace('python','/venv/bin/python')
    r=sh(f'cd /tmp/probe && {cmd}', timeout=1200)
    print('==',name,'| tests:',tests,'\n   probe:',r.stdout.strip().replace('\n','\n          ')[:400], r.stderr.strip()[-200:])
    sh(f'cd {REPO} && git checkout -q .')
    sys.stdout.flush()
