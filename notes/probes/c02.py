import pytrs, itertools, re, collections
from fractions import Fraction as F
COMP={'N':(0,F(1,2),F(1,2),1)}  # placeholder
def sub(rect, c):
    x0,y0,w,h=rect  # origin SW corner; y up (north)
    if c=='ALL': return rect
    if c in ('N','S','E','W'):
        if c=='N': return (x0, y0+h/2, w, h/2)
        if c=='S': return (x0, y0, w, h/2)
        if c=='E': return (x0+w/2, y0, w/2, h)
        if c=='W': return (x0, y0, w/2, h)
    ns,ew=c[0],c[1]
    return sub(sub(rect,ns),ew)
def region(chain):   # chain in text order: smallest first; apply from right
    r=(F(0),F(0),F(1),F(1))
    for c in reversed(chain): r=sub(r,c)
    return r
def widen(rect, M):
    x0,y0,w,h=rect
    minsz=F(1,2**M)
    if w<minsz:
        # dyadic ancestor of width minsz containing x0
        k=(x0//minsz); x0=k*minsz; w=minsz
    if h<minsz:
        k=(y0//minsz); y0=k*minsz; h=minsz
    return (x0,y0,w,h)
TOK=re.compile(r'NE|NW|SE|SW|N2|S2|E2|W2|ALL')
def piece_rect(p):
    toks=TOK.findall(p)
    assert ''.join(toks)==p, p
    comps=[t[0] if t.endswith('2') else t for t in toks]
    return region(comps), toks
def area(r): return r[2]*r[3]
def inside(a,b): return a[0]>=b[0] and a[1]>=b[1] and a[0]+a[2]<=b[0]+b[2] and a[1]+a[3]<=b[1]+b[3]
def overlap(a,b): return a[0]<b[0]+b[2] and b[0]<a[0]+a[2] and a[1]<b[1]+b[3] and b[1]<a[1]+a[3]
FR={'N':'N½','S':'S½','E':'E½','W':'W½','NE':'NE¼','NW':'NW¼','SE':'SE¼','SW':'SW¼'}
bad=collections.Counter(); ex={}; n=0
for L in [1,2,3,4]:
  for chain in itertools.product(list(FR), repeat=L):
    txt=''.join(FR[c] for c in chain)
    for mn in [1,2,3]:
      for mx in [None]+list(range(mn,mn+3)):
        for bh in [False,True]:
            cfg=f"qq_depth_min.{mn}"+(f",qq_depth_max.{mx}" if mx else '')+(',break_halves' if bh else '')
            t=pytrs.Tract(txt, parse_qq=True, config=cfg); n+=1
            reg=region(chain)
            if mx: reg=widen(reg,mx)
            rects=[]; ok=True; why=''
            for p in t.qqs:
                r,toks=piece_rect(p); rects.append(r)
                if not inside(r,reg): ok=False; why='outside'
                if mx and len(toks)>mx: ok=False; why='deeper than max'
                big=toks[::-1][:mn]
                if len(toks)<mn or any(x.endswith('2') for x in big): ok=False; why='min depth'
                if bh and any(x.endswith('2') for x in toks): ok=False; why='half with break_halves'
            if ok and sum(map(area,rects))!=area(reg): ok=False; why='area'
            if ok:
                for a,b in itertools.combinations(rects,2):
                    if overlap(a,b): ok=False; why='overlap'; break
            if not ok:
                bad[why]+=1; ex.setdefault(why,(txt,cfg,t.qqs))
print(n, dict(bad)); 
for k,v in ex.items(): print(k,v)
