import pytrs
def snap(tl): return [(t.trs,t.desc,tuple(t.lots),tuple(t.qqs)) for t in tl]
W = {
 'default_ns': ('s', 'T154-R97W Sec 14: NE/4'),
 'default_ew': ('e', 'T154N-R97 Sec 14: NE/4'),
 'clean_qq': (True, 'T154N-R97W Sec 14: NE'),
 'parse_qq': (True, 'T154N-R97W Sec 14: NE/4'),
 'sec_colon_required': (True, 'T154N-R97W Sec 14: NE/4 of Sec 15 NW/4'),
 'sec_colon_cautious': (True, 'T154N-R97W Sec 14 NE/4'),
 'segment': (True, 'T154N-R97W Sec 14: NE/4, NW/4 of Sec 15, T155N-R97W'),
 'ocr_scrub': (True, 'TI54N-R97W Sec 14: NE/4'),
 'sec_within': (True, 'T154N-R97W That part of Sec 14 lying north'),
 'qq_depth_min': (3, 'T154N-R97W Sec 14: NE/4NE/4'),
 'qq_depth_max': (2, 'T154N-R97W Sec 14: N/2NE/4NE/4'),
 'qq_depth': (1, 'T154N-R97W Sec 14: N/2NE/4'),
 'break_halves': (True, 'T154N-R97W Sec 14: N/2NE/4NE/4'),
 'layout': ('copy_all', 'T154N-R97W Sec 14: NE/4'),
}
for s,(v,txt) in W.items():
    cfgtxt = s if v is True else (v if s in ('default_ns','default_ew','layout') else f"{s}.{v}")
    base = snap(pytrs.PLSSDesc(txt, parse_qq=True).tracts)
    try: A = snap(pytrs.PLSSDesc(txt, config=cfgtxt, parse_qq=True).tracts)
    except Exception as e: A='EXC '+repr(e)
    try:
        b = pytrs.PLSSDesc(txt, wait_to_parse=True, parse_qq=True); b.config=cfgtxt; b.parse(); B=snap(b.tracts)
    except Exception as e: B='EXC '+repr(e)
    try:
        c = pytrs.PLSSDesc(txt, wait_to_parse=True, parse_qq=True); C=snap(c.parse(commit=False, **{s:v}))
    except Exception as e: C='EXC '+repr(e)
    print(s, 'sensitive' if A!=base else 'INSENSITIVE', 'A==B' if A==B else 'A!=B', 'A==C' if A==C else 'A!=C')
    if A!=B or A!=C: print('   base',base,'\n   A',A,'\n   B',B,'\n   C',C)
