import sys, itertools, json
sys.path.insert(0, sys.argv[1])
import pytrs
from pytrs.parser.plssdesc.plss_preprocess import plss_preprocess
TR=['T154N-R97W','Township 154 North, Range 97 West','154N-97W','T1S R2E']
MID=['',' ',', ','  ',' of the ',' of ',' the ',', of the ',' teh ',' oof the ',': ',' - ','\n',' in the ', ' all in the ', ' Sec 14 of the ', ' lying west of the ']
PM=['5th P.M.','5th PM','Fifth Principal Meridian','P.M.','Sixth Prncpl Meridian','Indian Meridian','5th P. M.','6th p.m.','Montana Principal Meridian, Montana','']
AFTER=['',' Sec 14: NE/4',', Sec 14: NE/4','\nSec 14: NE/4']
out=[]
for a,b,c,d in itertools.product(TR,MID,PM,AFTER):
    txt=a+b+c+d
    out.append((txt, plss_preprocess(txt)[0]))
json.dump(out, open(sys.argv[2],'w'))
