import pytrs, time, sys, multiprocessing as mp
from multiprocessing.connection import wait
def worker(conn):
    while True:
        job=conn.recv()
        if job is None: return
        t0=time.process_time()
        try: pytrs.PLSSDesc(job, parse_qq=True); err=None
        except Exception as e: err=repr(e)
        conn.send((time.process_time()-t0, err))
class W:
    def __init__(self): self.spawn()
    def spawn(self):
        self.pc, cc = mp.Pipe(); self.p=mp.Process(target=worker,args=(cc,),daemon=True); self.p.start(); self.job=None
    def kill(self): self.p.kill(); self.p.join(); self.spawn()
def run(jobs, limit=4.0, nw=16):
    ws=[W() for _ in range(nw)]; res={}; it=iter(jobs); pending=0
    def feed(w):
        nonlocal pending
        try: j=next(it)
        except StopIteration: return
        w.job=(j,time.time()); w.pc.send(j); pending+=1
    for w in ws: feed(w)
    while pending:
        ready=wait([w.pc for w in ws if w.job], timeout=0.2)
        now=time.time()
        for w in ws:
            if not w.job: continue
            if w.pc in ready:
                res[w.job[0]]=w.pc.recv(); w.job=None; pending-=1; feed(w)
            elif now-w.job[1]>limit:
                res[w.job[0]]=(99.0,'timeout'); j=w.job; w.kill(); pending-=1; feed(w)
    for w in ws: w.pc.send(None)
    return res
if __name__=='__main__':
    units=[' ','\t','\n','.',',',';',':','-','/','&','. ',', ','; ',': ','- ',' of',' the ','and ',' t','o','1 ','1, ','Sec ','Lot ','N/2','NE','(',' to ',' thru ','T154N-R97W\n']
    ctx=[('T154N-R97W','Sec 14: NE/4'),('T154N-R97W Sec 14',': NE/4'),('T154N-R97W Sec 14: Lot 1','x'),('T154N-R97W Sec 14: N/2',' NE/4'),('',''),('NE/4 of Section 14',', T154N-R97W')]
    fams=[(u,p,s) for u in units for p,s in ctx]
    jobs={}
    for u,p,s in fams:
        for n in [8,16,32,64,128]:
            txt=p+u*n+s
            if len(txt)<=300: jobs[txt]=(u,p,s,n)
    res=run(list(jobs))
    byfam={}
    for txt,(dt,err) in res.items():
        u,p,s,n=jobs[txt]; byfam.setdefault((u,p,s),[]).append((n,round(dt,2)))
    for k,v in byfam.items():
        v.sort()
        if any(dt>0.5 for n,dt in v): print(k, v)
