import pytrs, itertools, json, subprocess, sys, copy
from pytrs import TRS, Tract, MasterConfig as MC, PLSSDesc
PROBE_SRC = r'''
import pytrs, json
from pytrs import TRS, Tract, PLSSDesc
def probe():
    out=[]
    for txt in ['T154-R97 Sec 14: NE/4','T154N-R97W Sec 14: Lots 1, 1, N/2NE/4, Sec 15: W/2','154-97 Sec 1: ALL','NE/4 of Section 14, T154N-R97']:
        d=PLSSDesc(txt, parse_qq=True)
        out.append([(t.trs,t.twp,t.rge,t.sec,t.twp_num,t.rge_num,t.sec_num,t.desc,t.lots,t.qqs,t.w_flags,t.e_flags) for t in d.tracts]+[d.pp_desc,d.w_flags,d.e_flags])
    out.append(Tract.from_twprgesec('NE/4',154,97,14).trs)
    out.append(TRS.from_twprgesec('154','97w',1).trs)
    for s in ['154n97w14','154s97e14','1154n97w14','XXXzXXXzXX','','154n97w']:
        t=TRS(s); out.append((t.trs,t.twp,t.rge,t.sec,t.twp_num,t.rge_num,t.sec_num,t.twp_undef,t.is_error()))
        out.append(sorted(pytrs.trs_to_dict(s).items(), key=str))
    out.append(pytrs.find_twprge('T154-R97 and T1S-R2',preprocess=True))
    ts=[Tract('x',trs=s) for s in ['154n97w14','154n97w01','1s2e05']]
    tl=pytrs.TractList(reversed(ts)); tl.custom_sort('i'); out.append([t.trs for t in tl])
    return json.loads(json.dumps(out))
'''
exec(PROBE_SRC)
def fresh(ns,ew):
    code=PROBE_SRC+f"\npytrs.MasterConfig.default_ns={ns!r}; pytrs.MasterConfig.default_ew={ew!r}\nprint(json.dumps(probe()))"
    return json.loads(subprocess.check_output([sys.executable,'-c',code]))
REF={(ns,ew):fresh(ns,ew) for ns in 'ns' for ew in 'ew'}
keep=[]
def ev_parse0(): PLSSDesc('T154S-R97E Sec 14: NE/4, Sec 15: S/2', parse_qq=True)
def ev_parse1(): PLSSDesc('T154-R97 Sec 14: Lots 1 - 3', parse_qq=True)
def ev_ns_s(): MC.default_ns='s'
def ev_ns_n(): MC.default_ns='n'
def ev_ew_e(): MC.default_ew='e'
def ev_ew_w(): MC.default_ew='w'
def ev_clear(): TRS._clear_cache()
def ev_nocache(): TRS._USE_CACHE=False
def ev_cache(): TRS._USE_CACHE=True
def ev_warm():
    for s in ['154n97w14','154s97e14','1154n97w14','154n97w','']: TRS(s)
def ev_mutate():
    for s in ['154n97w14','154n97w']:
        d=pytrs.trs_to_dict(s); d['sec']='99'; d['trs']='1n1w01'; d['twp_num']=7
        d=TRS.trs_to_dict(s); d.clear()
def ev_keep(): keep.append(Tract.from_twprgesec('NE/4',154,97,14)); keep.append(TRS.from_twprgesec(1,2,3))
EVS=[ev_parse0,ev_parse1,ev_ns_s,ev_ns_n,ev_ew_e,ev_ew_w,ev_clear,ev_nocache,ev_cache,ev_warm,ev_mutate,ev_keep]
def reset():
    MC.default_ns='n'; MC.default_ew='w'; TRS._USE_CACHE=True; TRS._clear_cache(); keep.clear()
bad=0;n=0
for L in [0,1,2,3]:
    for seq in itertools.product(EVS, repeat=L):
        reset()
        for e in seq: e()
        got=probe(); n+=1
        if got!=REF[(MC.default_ns,MC.default_ew)]:
            bad+=1
            if bad<5: print('DIFF', [e.__name__ for e in seq])
print(n,bad)
