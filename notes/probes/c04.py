import pytrs, itertools, collections, re
BASES = [
 ['T154N-R97W',' ','Sec 14',':',' ','NE/4',', ','Sec 15',':',' ','W/2'],
 ['T154N-R97W',' ','Sec 14',':',' ','NE/4',' ','T155N-R97W',' ','Sec 1',':',' ','ALL'],
 ['NE/4',' of ','Section 14',', ','T154N-R97W'],
 ['NE/4',' of ','Section 14',', ','W/2',' of ','Section 15',', ','T154N-R97W','; ','ALL',' of ','Section 1',', ','T155N-R97W'],
 ['Section 14',':',' ','NE/4',', ','T154N-R97W'],
 ['T154N-R97W','\n','NE/4',' of ','Section 14','\n','W/2',' of ','Section 15'],
 ['That part of the',' ','NE/4',' of ','Section 14',' of ','T154N-R97W',' ','lying north of the river'],
 ['Township 154 North, Range 97 West',', ','of the 5th P.M.',' ','Sec 14',':',' ','NE/4'],
 ['T154N-R97W',' ','Sec 14',' ','NE/4',', ','Sec 15',' ','W/2'],
 ['Sec 14',':',' ','NE/4'],
 ['T154N-R97W',' ','NE/4'],
]
MODES = [None,'segment','sec_within','sec_colon_required','sec_colon_cautious','segment,sec_within','TRS_desc','desc_STR','S_desc_TR','TR_desc_S','copy_all']
M='QXZV'
viol=collections.Counter(); n=0; exc=collections.Counter(); ex={}
def variants(base):
    yield base
    for i in range(len(base)):
        yield base[:i]+base[i+1:]   # delete one token
for base in BASES:
  for b in variants(base):
    for pos in range(len(b)+1):
        toks = b[:pos]+[' '+M+' ']+b[pos:]
        txt=''.join(toks)
        for mode in MODES:
            n+=1
            kw={}
            if mode in ('TRS_desc','desc_STR','S_desc_TR','TR_desc_S','copy_all'):
                try:
                    d=pytrs.PLSSDesc(txt, wait_to_parse=True); tl=d.parse(layout=mode, commit=True)
                except Exception as e:
                    exc[type(e).__name__+str(e)[:40]]+=1; continue
            else:
                try: d=pytrs.PLSSDesc(txt, config=mode)
                except Exception as e:
                    exc[type(e).__name__+str(e)[:40]]+=1; continue
            inout = any(M in t.desc for t in d.tracts) or any(M in str(f) for f in d.e_flags)
            if not inout:
                viol[mode]+=1; ex.setdefault(mode,[]).append((txt,[(t.trs,t.desc) for t in d.tracts], d.e_flags, d.pp_desc))
print(n, dict(viol), dict(exc))
for m,l in ex.items():
    for e in l[:6]: print(m, e)
