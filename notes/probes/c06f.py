import pytrs, itertools, collections
# flags + acreage oracle
ELEMS=[('Lot 1',['L1'],{}),('Lot 2(38.12)',['L2'],{'L2':'38.12'}),('Lots 3 - 4',['L3','L4'],{}),('Lot 1 [40.00]',['L1'],{'L1':'40.00'}),('NE/4',[],{}),('Lots 5(1.1), 6(2.2)',['L5','L6'],{'L5':'1.1','L6':'2.2'}),('Lot 2(39.00)',['L2'],{'L2':'39.00'})]
bad=collections.Counter(); ex={}; n=0
for L in [1,2,3]:
  for seq in itertools.product(ELEMS, repeat=L):
    for sep in [', ','; ','\n']:
        txt=sep.join(e[0] for e in seq); n+=1
        t=pytrs.Tract(txt, parse_qq=True)
        lots=[x for e in seq for x in e[1]]
        acres={}
        dupacre=False
        for e in seq:
            for k,v in e[2].items():
                if k in acres: dupacre=True
                acres[k]=v
        duplot = len(set(lots))<len(lots)
        qn=sum(1 for e in seq if e[0]=='NE/4')
        dupqq = qn>1
        got_duplot=any(f.startswith('dup_lot<') for f in t.w_flags); got_dupqq=any(f.startswith('dup_qq<') for f in t.w_flags); got_dupacre=any(f.startswith('dup_lot_acreage') for f in t.w_flags)
        if t.lots!=lots: bad['lots']+=1; ex.setdefault('lots',(txt,t.lots,lots))
        if dict(t.lot_acres)!=acres: bad['acres']+=1; ex.setdefault('acres',(txt,t.lot_acres,acres))
        if got_duplot!=duplot: bad['duplot']+=1; ex.setdefault('duplot',(txt,t.w_flags))
        if got_dupqq!=dupqq: bad['dupqq']+=1; ex.setdefault('dupqq',(txt,t.w_flags))
        if got_dupacre!=dupacre: bad['dupacre']+=1; ex.setdefault('dupacre',(txt,t.w_flags,acres))
print(n,dict(bad))
for k,v in ex.items(): print(k,v)
