import pytrs, csv, os, tempfile, itertools, collections
from pytrs.tractwriter import TractWriter
from pytrs.utils import flatten
DESCS=[pytrs.PLSSDesc('T154N-R97W Sec 1: Lots 1(38.12), 2, 1, N/2 of Lot 3, "S/2NE/4", less and except the wellbore\nSec 5 - 3: NE/4, NE/4', parse_qq=True, source='doc,1'),
       pytrs.PLSSDesc('That part of Sec 14 lying north\nof the river, xyz', parse_qq=True),
       pytrs.PLSSDesc('T1S-R2E Sec 36: Beginning at a point;\nthence "North" 660 feet, to the POB', parse_qq=True, source=7)]
def cell(v):
    if v is None: return ''
    if isinstance(v,dict): return ','.join(f"{k}:{x}" for k,x in v.items())
    if isinstance(v,(list,tuple)): return ', '.join(str(e) for e in flatten(list(v)))
    return str(v)
ATTS=list(pytrs.Tract.ATTRIBUTES)+['bogus','__nope']
tmp=tempfile.mkdtemp(); bad=collections.Counter(); ex={}; n=0
for d in DESCS:
  for atts in list(itertools.permutations(ATTS,1))+list(itertools.permutations(ATTS,2)):
    atts=list(atts)
    for hdr in (False,True,['h%d'%i for i in range(len(atts))],{atts[0]:'H0'}):
      for mode,pre in (('w',False),('a',False),('a',True)):
        for writer in ('csv','tw'):
            fp=os.path.join(tmp,'f.csv'); n+=1
            if os.path.exists(fp): os.remove(fp)
            if pre: open(fp,'w',newline='').write('old,row\r\n')
            try:
                if writer=='csv': d.tracts_to_csv(atts, fp, mode, nice_headers=hdr)
                else:
                    w=TractWriter(atts, fp, mode, nice_headers=hdr); w.write(d); w.close()
            except Exception as e:
                bad['exc '+type(e).__name__]+=1; ex.setdefault('exc',(atts,hdr,mode,writer,repr(e))); continue
            rows=list(csv.reader(open(fp,newline='')))
            exp=[]
            if pre: exp.append(['old','row'])
            else:
                if isinstance(hdr,dict): exp.append([hdr.get(a,a) for a in atts])
                elif isinstance(hdr,list): exp.append(list(hdr))
                elif hdr: exp.append([pytrs.Tract.ATTRIBUTES.get(a,a) for a in atts])
                else: exp.append(list(atts))
            for t in d.tracts:
                exp.append([cell(getattr(t,a,f"{a}: n/a")) for a in atts])
            if rows!=exp:
                bad['mismatch']+=1; ex.setdefault('mismatch',(atts,hdr,mode,writer,rows[:2],exp[:2]))
print(n,dict(bad))
for k,v in ex.items(): print(k,v)
import shutil; shutil.rmtree(tmp)
