import pytrs, itertools, collections
SP = {
 'N':['N/2','N2','N½','N 1/2','North Half','N. 1/2','No. 1/2','North One Half','north half','N /2'],
 'S':['S/2','S2','S½','S 1/2','South Half','So. Half'],
 'E':['E/2','E2','E½','E 1/2','East Half'],
 'W':['W/2','W2','W½','W 1/2','West Half'],
 'NE':['NE/4','NE4','NE¼','NE 1/4','Northeast Quarter','North East Quarter','North East One Quarter','N.E. 1/4','NE /4','Northeast One-Quarter','northeast quarter'],
 'NW':['NW/4','NW4','NW¼','NW 1/4','Northwest Quarter','North West Quarter'],
 'SE':['SE/4','SE4','SE¼','SE 1/4','Southeast Quarter','South East Quarter'],
 'SW':['SW/4','SW4','SW¼','SW 1/4','Southwest Quarter','South West One Quarter'],
}
CANON={'N':'N½','S':'S½','E':'E½','W':'W½','NE':'NE¼','NW':'NW¼','SE':'SE¼','SW':'SW¼'}
JOIN=['',' ',' of ',' of the ']
fails=collections.Counter(); ex=collections.defaultdict(list); n=0
comps=list(SP)
for L in [1,2,3]:
  for chain in itertools.product(comps, repeat=L):
    canon=''.join(CANON[c] for c in chain)
    base=pytrs.Tract(canon, parse_qq=True)
    # one-deviation: vary spelling of one component at a time + joiner
    for j in JOIN:
      for i in range(L):
        for sp in SP[chain[i]]:
            parts=[CANON[c] for c in chain]; parts[i]=sp
            # others use '/x' default spelling
            parts=[SP[c][0] if k!=i else sp for k,c in enumerate(chain)]
            txt=j.join(parts); n+=1
            for cfg in [None,'clean_qq']:
                t=pytrs.Tract(txt, parse_qq=True, config=cfg)
                if t.pp_desc!=canon or t.qqs!=base.qqs:
                    fails[(cfg,repr(j),sp)]+=1
                    if len(ex[(cfg,j,sp)])<2: ex[(cfg,j,sp)].append((txt,t.pp_desc,canon))
                else:
                    # fixed point
                    t2=pytrs.Tract(t.pp_desc, parse_qq=True, config=cfg)
                    if t2.pp_desc!=t.pp_desc or t2.qqs!=t.qqs: fails[('FP',cfg)]+=1
print(n)
for k,v in sorted(fails.items(), key=str): print(k,v)
for k,v in list(ex.items())[:50]:
    for e in v[:1]: print(k,e)
