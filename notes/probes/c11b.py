import pytrs, itertools, collections, re, sys
from multiprocessing import Pool
V=['T154N-R97W','T1S-R2E','Sec','Section','14','15',':',',','-','and','of','NE/4','Lots 1 - 3','ALL','\n','Township 7 North','Range 9 West','less and except','§','xyz','in','.','&','through','154N','97W','N/2','T155N','R98W']
SEPS=set(',;:-–— \t\n.'); WORDS=['the','all in','all of','of','in','and']
def edge_only(full, desc):
    i=full.find(desc)
    if i<0: return False
    pre=full[:i]; suf=full[i+len(desc):]
    def junk(s):
        s=s.lower()
        while True:
            t=s.strip(''.join(SEPS))
            for w in WORDS:
                if t.endswith(w) and (len(t)==len(w) or t[-len(w)-1] in SEPS): t=t[:-len(w)]
                if t.startswith(w) and (len(t)==len(w) or t[len(w)] in SEPS): t=t[len(w):]
            if t==s: break
            s=t
        return s==''
    return junk(pre) and junk(suf)
TWP=re.compile(r'T154N-R97W|T1S-R2E|154N|97W|T155N|R98W|Township 7 North|Range 9 West')
def check(txt):
    out=[]
    for ch in ('kw','cfg','parse'):
        if ch=='kw': d=pytrs.PLSSDesc(txt, layout='copy_all'); tr=d.tracts
        elif ch=='cfg': d=pytrs.PLSSDesc(txt, config='copy_all'); tr=d.tracts
        else: d=pytrs.PLSSDesc(txt); tr=d.parse(layout='copy_all', commit=False)
        if len(tr)!=1 or tr[0].desc!=d.pp_desc: out.append(('forced',ch))
        elif tr[0].trs_is_error() and ch!='parse' and not d.e_flags: out.append(('forced-noflag',ch))
    d=pytrs.PLSSDesc(txt)
    if sum(1 for t in d.tracts if t.desc==d.pp_desc)>1: out.append(('two-full',))
    no_tr = not TWP.search(txt); no_secword = not re.search(r'Sec|Section|§', txt); no_secnum = not re.search(r'(Sec|Section|§)[\s:]*(14|15)', txt.replace('\n',' '))
    if no_tr or no_secword:
        if len(d.tracts)!=1 or d.tracts[0].desc!=d.pp_desc: out.append(('fallback-class',no_tr,no_secword))
        elif not d.e_flags: out.append(('fallback-noflag',))
    dr=pytrs.PLSSDesc(txt.replace(':',''), config='sec_colon_required')
    # all sections rejected -> one tract w/ whole text modulo edges (only when layout section-first)
    if dr.current_layout in ('TRS_desc','S_desc_TR') and not re.search(r':',txt.replace(':','')):
        if len(dr.tracts)!=1 or not (dr.tracts[0].desc==dr.pp_desc or edge_only(dr.pp_desc, dr.tracts[0].desc)): out.append(('required-fallback',))
    return out
if __name__=='__main__':
    texts=set()
    for L in range(0,4):
        for seq in itertools.product(V, repeat=L): texts.add(' '.join(seq))
    texts=sorted(texts); print(len(texts)); sys.stdout.flush()
    cnt=collections.Counter(); ex={}
    with Pool(16) as p:
        for t,res in zip(texts, p.imap(check, texts, chunksize=300)):
            for r in set(res):
                cnt[r]+=1
                if r not in ex or len(t)<len(ex[r]): ex[r]=t
    for k,v in cnt.items(): print(v,k,repr(ex[k]))
