import pytrs, itertools, collections
THRU=[' - ','-',' through ',' thru ',' to ', '–', ' thru. ']
AND=[' and ',' & ',', ',', and ', ',', ';', ': ', '. ', ' / ', ', & ']
KW={'sec':['Sec ','Section ','Secs ','Sections ','Sec. ','Secs. ','§ ','Sec','Sect. ','Sects '], 'lot':['Lot ','Lots ','L','L. ','Lt ','Lts. ','Lot','Lots']}
def items(nums):
    # nums: available numbers; yield (text-pieces, expansion)
    pass
def expand(it):
    if it[0]=='s': return [it[1]]
    a,b=it[1],it[2]
    return list(range(a,b+1)) if a<=b else list(range(a,b-1,-1))
ITEMS=[('s',3),('s',14),('r',1,3),('r',9,11),('r',5,3),('r',12,10),('s',7),('r',2,2)]
fails=collections.Counter(); n=0; ex=collections.defaultdict(list)
for kind in ['sec','lot']:
  for L in [1,2,3]:
    for seq in itertools.product(ITEMS, repeat=L):
      for kw in KW[kind]:
        for thru in THRU:
          for andw in AND:
            for rep in [False, True]:   # repeat keyword before each later item
              parts=[]
              for i,it in enumerate(seq):
                  s = str(it[1]) if it[0]=='s' else f"{it[1]}{thru}{it[2]}"
                  if i==0: s=kw+s
                  elif rep: s=kw+s
                  parts.append(s)
              txt=andw.join(parts)
              exp=[x for it in seq for x in expand(it)]
              n+=1
              try:
                if kind=='sec':
                    got=pytrs.find_sec(txt); e=[f"{x:02d}" for x in exp]
                else:
                    t=pytrs.Tract(txt, parse_qq=True); got=t.lots; e=[f"L{x}" for x in exp]
                ok = got==e
              except Exception as exn:
                ok=False; got=repr(exn)
              if not ok:
                fails[(kind,'thru'+thru)]+=1; fails[(kind,'and'+andw)]+=1; fails[(kind,'kw'+kw)]+=1; fails[(kind,'rep',rep)]+=1; fails[(kind,'L',L)]+=1
                if len(ex[(kind,thru,andw)])<2: ex[(kind,thru,andw)].append((txt,got,e))
print(n)
for k,v in sorted(fails.items(), key=str): print(k,v)
for k,v in list(ex.items())[:60]:
    for e in v: print(k, e)
