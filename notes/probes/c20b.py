import pytrs, itertools
LEAD=['That part of the NE/4 of','A strip of land across']
TRAIL=['lying north of the river','described as follows: beginning at a point']
SEC=[('Section 14',['14']),('Sec 1 - 3',['01','02','03']),('Sections 5 and 6',['05','06'])]
TR='T154N-R97W'
n=0;bad=0
for lead,trail,(sec,nums) in itertools.product(LEAD,TRAIL,SEC):
  for place in ['before','after_sec','end','before_nl', 'of_after_sec']:
    if place=='before': txt=f"{TR} {lead} {sec} {trail}"
    elif place=='before_nl': txt=f"{TR}\n{lead} {sec} {trail}"
    elif place=='after_sec': txt=f"{lead} {sec}, {TR}, {trail}"
    elif place=='of_after_sec': txt=f"{lead} {sec} of {TR} {trail}"
    else: txt=f"{lead} {sec} {trail}, {TR}"
    txt=' '.join(txt.split(' ')).strip()
    d=pytrs.PLSSDesc(txt, config='sec_within'); n+=1
    import re
    want_desc=' '.join(x for x in [lead.strip(), trail.strip()] if x)
    got=[(t.trs,t.desc) for t in d.tracts]
    exp=[(f"154n97w{s}", want_desc) for s in nums]
    ok = got==exp and (any(f.startswith('sec_within') for f in d.w_flags) or not want_desc)
    if not ok:
        bad+=1; print(repr(txt)); print('   got',got, d.w_flags, d.e_flags); print('   exp',exp)
print(n,bad)
