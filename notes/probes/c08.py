import pytrs, itertools, collections
from pytrs import MasterConfig
NSW={'N':['N','North','n','N.','north','NORTH'],'S':['S','South','s','S.','south']}
EWW={'E':['E','East','e','E.','east'],'W':['W','West','w','W.','west','WEST']}
def spellings(t,ns,r,ew):
    # yields (text, has_T, has_R)
    for nsw in ([''] if ns is None else NSW[ns]):
      for eww in ([''] if ew is None else EWW[ew]):
        yield f"T{t}{nsw}-R{r}{eww}"
        yield f"T{t}{nsw} R{r}{eww}"
        yield f"Township {t} {nsw}, Range {r} {eww}".replace(' ,',',').rstrip()
        yield f"Twp. {t} {nsw}., Rge. {r} {eww}." if nsw and eww else f"Twp. {t} {nsw}, Rge. {r} {eww}".rstrip()
        yield f"T. {t} {nsw}., R. {r} {eww}." if nsw and eww else f"T. {t} {nsw}, R. {r} {eww}".rstrip()
        yield f"t{t}{nsw}-r{r}{eww}"
        yield f"Township {t} {nsw} - Range {r} {eww}".rstrip()
        yield f"T{t}{nsw}R{r}{eww}"
        if ns and ew and r!=2:
            yield f"{t}{nsw}-{r}{eww}"
            yield f"{t}{nsw} {r}{eww}"
fails=collections.Counter(); ex=collections.defaultdict(list); n=0
for t in [1,7,15,154,2]:
  for r in [1,2,9,97,102]:
    for ns in ['N','S',None]:
      for ew in ['E','W',None]:
        for dns in [None,'n','s']:
          for dew in [None,'e','w']:
            ens=(ns or (dns or 'n')).upper(); eew=(ew or (dew or 'w')).upper()
            want=f"T{t}{ens}-R{r}{eew}"
            for sp in set(spellings(t,ns,r,ew)):
                txt=f"{sp} Sec 14: NE/4"; n+=1
                cfg=','.join(x for x in [dns,dew] if x) or None
                try:
                    d=pytrs.PLSSDesc(txt, config=cfg)
                    ok = d.pp_desc.startswith(want+' ') and d.tracts[0].trs==f"{t}{ens.lower()}{r}{eew.lower()}14" and len(d.tracts)==1
                    fx = any(f.startswith('fixed_twprge') for f in d.w_flags)
                    if (ns is None or ew is None) != fx: ok=False
                    got=(d.pp_desc, d.tracts[0].trs, d.w_flags)
                    f2=pytrs.find_twprge(txt, preprocess=True, default_ns=dns, default_ew=dew)
                    if f2!=[want]: ok=False; got=got+(f2,)
                except Exception as e:
                    ok=False; got=repr(e)
                if not ok:
                    key=(ns,ew)
                    fails[key]+=1
                    if len(ex[key])<12: ex[key].append((txt,cfg,want,got))
print(n)
for k,v in sorted(fails.items(), key=str): print(k,v)
for k,v in ex.items():
    for e in v: print(k,e)
