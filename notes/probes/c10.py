import pytrs, collections
TRIG={'less and except the north 10 acres':'less_except','except the road':'less_except','limited to the Bakken':'less_except','insofar as it covers':'insofar','only in so far as':'insofar','including all accretions':'including','from the surface to the base of the formation':'depth','all depths below':'depth','the Johnston wellbore':'well','the well':'well'}
BASES=[['T154N-R97W',' Sec 14: ','NE/4',', Sec 15: ','W/2'],['NE/4',' of Section 14, ','W/2',' of Section 15, ','T154N-R97W'],['T154N-R97W\n','NE/4',' of Section 14\n','W/2',' of Section 15'],['Section 14: ','NE/4',', T154N-R97W'],['T154N-R97W',' Sec 14: ','NE/4',' T155N-R97W',' Sec 1: ','ALL']]
bad=collections.Counter(); ex={}; n=0
for cfg in [None,'segment','sec_within','sec_colon_cautious']:
  for b in BASES:
    for pos in range(len(b)+1):
      for ph,flag in TRIG.items():
        txt=''.join(b[:pos]+[' '+ph+' ']+b[pos:]); n+=1
        d=pytrs.PLSSDesc(txt, config=cfg)
        ok = flag in d.w_flags and any(f==flag and any(w.lower() in c.lower() for w in ph.split()[:1]) for f,c in d.w_flag_lines if isinstance(c,str))
        if not ok:
            bad[(cfg,flag)]+=1; ex.setdefault((cfg,flag),(txt,d.w_flags,d.e_flags))
print(n,dict(bad))
for k,v in ex.items(): print(k,v)
# pretty_desc round trip
for txt in ['T154N-R97W Sec 14: NE/4, Sec 15: W/2 T7S-R9E Sec 1 - 3: Lots 1 - 3, S/2NE/4','Beginning at a point\nthence South of Section 14, T154N-R97W']:
    d=pytrs.PLSSDesc(txt); p=d.pretty_desc(); d2=pytrs.PLSSDesc(p)
    print(repr(p)); print([(t.trs,t.desc) for t in d.tracts]==[(t.trs,t.desc) for t in d2.tracts], [(t.trs,t.desc) for t in d2.tracts])
