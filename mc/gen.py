"""
Shared generators (the alphabets of DESIGN.md section 2): abstract PLSS descriptions and
their renderings, with a deviation-bounded enumeration of rendering choices.

An *abstract description* is (layout, [ (twp, ns, rge, ew, [ (kind, nums, block) ]) ]).
Its *expected tracts* are [(trs, block)] in reading order.  A *rendering* is a dict
dimension -> choice index (0 = default).  ``renderings(max_dev)`` yields every rendering
with at most ``max_dev`` non-default choices, level by level (0 deviations first).
"""
import itertools

LAYOUTS = ('TRS_desc', 'TR_desc_S', 'S_desc_TR', 'desc_STR')

NS_WORD = {'N': 'North', 'S': 'South'}
EW_WORD = {'E': 'East', 'W': 'West'}

TR_SPELL = [
    lambda t, ns, r, ew: f"T{t}{ns}-R{r}{ew}",
    lambda t, ns, r, ew: f"Township {t} {NS_WORD[ns]}, Range {r} {EW_WORD[ew]}",
    lambda t, ns, r, ew: f"Twp. {t} {ns}., Rge. {r} {ew}.",
    lambda t, ns, r, ew: f"{t}{ns}-{r}{ew}",
    lambda t, ns, r, ew: f"t{t}{ns.lower()}-r{r}{ew.lower()}",
    lambda t, ns, r, ew: f"T{t}{ns} R{r}{ew}",
    lambda t, ns, r, ew: f"T. {t} {ns}., R. {r} {ew}.",
    lambda t, ns, r, ew: f"Township {t} {NS_WORD[ns]} - Range {r} {EW_WORD[ew]}",
    lambda t, ns, r, ew: f"Township {t} {NS_WORD[ns]}, Range {r} {EW_WORD[ew]}, of the 5th P.M.",
    lambda t, ns, r, ew: f"TOWNSHIP {t} {NS_WORD[ns].upper()}, RANGE {r} {EW_WORD[ew].upper()}",
]
# spellings that carry an explicit 'R'/'Range' (the only ones documented to support range '2')
TR_SPELL_HAS_R = [True, True, True, False, True, True, True, True, True, True]

SECW = ['Sec ', 'Section ', 'Sec. ', 'Sect. ', '§ ', 'Sec', 'SECTION ', 'section ']
SECW_PLURAL = {'Sec ': 'Secs ', 'Section ': 'Sections ', 'Sec. ': 'Secs. ', 'Sect. ': 'Sects. ',
               '§ ': '§ ', 'Sec': 'Secs', 'SECTION ': 'SECTIONS ', 'section ': 'sections '}
ANDW = [' and ', ', ', ' & ', ' AND ', ' And ']
THRU = [' - ', '-', ' through ', ' thru ', ' to ', ' – ', ' Through ', ' THRU ', ' To ']
CONN = [' of ', ' in ', ', ']
SEP = [', ', '; ', '\n', ' ', ', \n\n', ';\n', '\r\n', ',  ', '\t', ' \n', '\r']      # incl. a paragraph break, CRLF, lone CR, double blank, tab
COLON = [': ', ' : ', ':\n', ' :\n', ':']
DIRS = [('N', 'W'), ('S', 'E'), ('N', 'E'), ('S', 'W')]
# (twp, rge) replacing the structure's own numbers, per Twp/Rge group position
NUMS = [None, [(7, 9), (15, 1)], [(1, 102), (154, 9)], [(15, 2), (7, 97)],
        [(154, 97), (154, 96), (153, 96)]]      # neighbouring groups that share the township, then the range
# section-number maps applied to the structure's section numbers
SECNUMS = [None, {14: 1, 15: 2, 16: 3, 17: 4, 1: 5, 2: 6, 5: 7, 6: 8, 36: 9, 3: 10},
           {14: 9, 15: 10, 16: 11, 17: 12, 1: 35, 2: 36, 5: 3, 6: 4, 36: 1, 3: 5}]

BLOCKS = [
    'NE/4',
    'ALL',
    'N/2, SW/4',
    'Lots 1 - 3, S/2NE/4',
    'Lot 5(38.12), N/2 of Lot 7',
    'That part lying north of the river',
    'Beginning at the NE corner thereof; thence South 660 feet',
    'Lots 1 and 2,\nS/2NE/4',
    'Lot 4 and all accretions thereof',
    'NE/4, being located in the Powder River Basin',
    '40 acres in the NE/4',            # a block that starts with a number (directly after 'Sec 14: ')
    'Beginning at a point; thence North 100 feet to the point of beginning.',     # ends with a period
    'Beginning at the intersection 50 feet north of the road',     # a word that merely contains 'section', then a number
    '.5 acre tract in the NE/4NE/4',   # starts with a decimal point
]

DIMS = {
    'tr': len(TR_SPELL), 'dirs': len(DIRS), 'nums': len(NUMS), 'secnums': len(SECNUMS),
    'secw': len(SECW), 'andw': len(ANDW), 'thru': len(THRU), 'conn': len(CONN),
    'sep': len(SEP), 'blockrot': len(BLOCKS), 'colon': len(COLON),
}
DIM_ORDER = ('tr', 'dirs', 'nums', 'secnums', 'secw', 'andw', 'thru', 'conn', 'sep', 'blockrot', 'colon')

# Structures: list of Twp/Rge groups; each group: (twp, rge, [ (kind, a, b) ]).  Blocks are
# assigned round-robin from BLOCKS starting at the 'blockrot' offset.
STRUCTS = [
    [(154, 97, [('single', 14, None)])],
    [(154, 97, [('single', 14, None), ('thru', 15, 17)])],
    [(154, 97, [('and', 1, 2)]), (7, 9, [('single', 36, None)])],
    [(1, 2, [('single', 5, None), ('single', 6, None)]), (155, 102, [('thru', 1, 3)])],
    [(154, 97, [('and', 1, 2), ('thru', 14, 16), ('single', 36, None)])],
    [(154, 97, [('single', 14, None)]), (155, 97, [('single', 15, None)]), (156, 98, [('and', 1, 3)])],
    # a Twp/Rge that recurs after a different one (A B A), and one that is repeated back to back (A A)
    [(154, 97, [('single', 14, None)]), (155, 97, [('thru', 1, 3)]), (154, 97, [('single', 22, None)])],
    [(154, 97, [('single', 14, None)]), (154, 97, [('and', 15, 16)])],
]


def renderings(max_dev, dims=DIM_ORDER):
    """Yield (level, {dim: choice}) for all renderings with <= max_dev deviations."""
    for level in range(0, max_dev + 1):
        for ds in itertools.combinations(dims, level):
            for choice in itertools.product(*[range(1, DIMS[d]) for d in ds]):
                yield level, dict(zip(ds, choice))


def count_renderings(max_dev, dims=DIM_ORDER):
    n = 0
    for level in range(0, max_dev + 1):
        for ds in itertools.combinations(dims, level):
            k = 1
            for d in ds:
                k *= DIMS[d] - 1
            n += k
    return n


def secgroup_text(kind, a, b, r):
    word = SECW[r.get('secw', 0)]
    if kind == 'single':
        return f"{word}{a}", [a]
    w = SECW_PLURAL[word]
    if kind == 'and':
        return f"{w}{a}{ANDW[r.get('andw', 0)]}{b}", [a, b]
    if kind == 'thru':
        return f"{w}{a}{THRU[r.get('thru', 0)]}{b}", list(range(a, b + 1))
    raise ValueError(kind)


def render(layout, struct, r, blocks=None):
    """-> (text, expected [(trs, block)]) or None when the rendering is not in the documented alphabet.
    blocks: block vocabulary to use instead of BLOCKS."""
    BLOCKS_ = blocks or BLOCKS
    sep = SEP[r.get('sep', 0)]
    conn = CONN[r.get('conn', 0)]
    out, exp = [], []
    bi = r.get('blockrot', 0)
    sn = SECNUMS[r.get('secnums', 0)]
    for gi, (t, rg, secs) in enumerate(struct):
        nm = NUMS[r.get('nums', 0)]
        if nm is not None:
            distinct = []
            for (t0, r0, _) in struct:
                if (t0, r0) not in distinct:
                    distinct.append((t0, r0))
            di = distinct.index((t, rg))      # recurring Twp/Rges stay identical, distinct ones stay distinct
            t, rg = nm[di % len(nm)]
            if di >= len(nm):
                t += di
        if r.get('dirs', 0):
            distinct_d = []
            for (t0, r0, _) in struct:
                if (t0, r0) not in distinct_d:
                    distinct_d.append((t0, r0))
            ns, ew = DIRS[(r.get('dirs', 0) + distinct_d.index((struct[gi][0], struct[gi][1]))) % len(DIRS)]
        else:
            ns, ew = DIRS[0]
        spell = r.get('tr', 0)
        if rg == 2 and not TR_SPELL_HAS_R[spell]:
            return None
        tr = TR_SPELL[spell](t, ns, rg, ew)
        trs = f"{t}{ns.lower()}{rg}{ew.lower()}"
        parts = []
        for (kind, a, b) in secs:
            if sn is not None:
                a = sn.get(a, a)
                b = sn.get(b, b) if b is not None else None
                if kind == 'thru' and not a < b:
                    return None
            block = BLOCKS_[bi % len(BLOCKS_)]
            bi += 1
            if (block[0].isdigit() or block[:1] == '.') and layout in ('TR_desc_S', 'desc_STR') and (parts or out):
                # a block that starts with a number, written directly behind the previous block's section number and a
                # comma / semicolon / blank ('... of Sec 14, 40 acres ...'), *is* a section list by the documented syntax:
                # not an unambiguous rendering
                return None
            stxt, nums = secgroup_text(kind, a, b, r)
            for n in nums:
                exp.append((f"{trs}{n:02d}", block))
            if layout in ('TRS_desc', 'S_desc_TR'):
                parts.append(f"{stxt}{COLON[r.get('colon', 0)]}{block}")
            else:
                parts.append(f"{block}{conn}{stxt}")
        if layout in ('TRS_desc', 'TR_desc_S'):
            out.append(tr + sep + sep.join(parts))
        else:
            out.append(sep.join(parts) + sep + tr)
    return sep.join(out), exp


def relevant(layout, struct, r):
    """A deviation that cannot change the text is not a distinct state; callers dedupe by text anyway."""
    return True
