"""Regenerate /verif/MANIFEST.json from the check modules that exist.
Usage: /venv/bin/python -m mc.gen_manifest
"""
import importlib
import json
import os

from .core import VERIF

ALL = [f"C{n:02d}" for n in range(1, 21)]

# Properties deliberately not claimed (kept current by hand): {id: reason}
NOT_APPLICABLE = {}

NOT_YET = "check not built yet in this tree (work in progress; see DESIGN.md section 3)"


def main():
    checks = []
    na = []
    engines = [{
        'name': 'mc-explorer',
        'path': 'mc/',
        'serves_properties': [],
        'kind_free_text': 'hand-written bounded exhaustive explorer (generator automata over '
                          'inputs / explicit-state BFS over operation sequences) driving the real '
                          'pytrs code in a pool of 16 long-lived worker processes, with reference '
                          'models in Python',
    }]
    for pid in ALL:
        if pid in NOT_APPLICABLE:
            na.append({'property_id': pid, 'reason': NOT_APPLICABLE[pid]})
            continue
        path = os.path.join(VERIF, 'mc', 'props', pid.lower() + '.py')
        if not os.path.exists(path):
            na.append({'property_id': pid, 'reason': NOT_YET})
            continue
        mod = importlib.import_module(f"mc.props.{pid.lower()}")
        engines[0]['serves_properties'].append(pid)
        checks.append({
            'property_id': pid,
            'quick_cmd': f"./check {pid} --tier quick",
            'thorough_cmd': f"./check {pid} --tier thorough",
            'evidence_file': f"/verif/evidence/{pid}.json",
            'replay_cmd_template': f"./check {pid} --replay {{path}}",
            'engine': 'mc-explorer',
            'level_claimed': {
                'category': mod.LEVEL,
                'text': mod.LEVEL_TEXT,
                'design_ref': f"DESIGN.md section 3, {pid}",
            },
            'level_note': mod.LEVEL_NOTE,
            'technique': mod.TECHNIQUE,
        })
    man = {
        'version': 1,
        'setup_cmd': './setup.sh',
        'hooks': {
            'guard': 'PYTRS_VERIF',
            'enable': 'no hooks are needed: every observation point is public API; checks import '
                      'the working tree of /repo directly (PYTRS_VERIF_REPO overrides the path)',
            'baseline_off_cmd': 'cd /repo && /venv/bin/python -m pytest -q -p no:cacheprovider --timeout=900',
            'source_commits': [],
            'add_only': True,
        },
        'engines': engines,
        'checks': checks,
        'not_applicable': na,
        'notes': 'All checks are bounded exhaustive explorations of the real implementation '
                 '(no sampling); bounds and caps are reported in each evidence file. Known '
                 'findings and fixed defects: /verif/known_findings.txt.',
    }
    with open(os.path.join(VERIF, 'MANIFEST.json'), 'w') as f:
        json.dump(man, f, indent=1)
        f.write('\n')
    print(f"MANIFEST.json: {len(checks)} checks, {len(na)} not_applicable")


if __name__ == '__main__':
    main()
