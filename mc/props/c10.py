"""
C10 - flags are well-typed, shared with tracts, and raised whenever warranted.

(1) The C03 input space (token soup, damaged seeds, specials x parse modes): typing / pairing /
    hand-down / flawed invariants on the description and on every tract.
(2) Trigger phrases: 31 phrases (singular / plural / upper-case / wrapped over a line break with extra blanks) inserted at every token boundary of 16 seed descriptions x
    {default, sec_within, both colon modes, every forced layout, ocr_scrub, clean_qq}: the corresponding warning flag
    must be present and one of its context strings must contain the triggering word.
(4) Repetition: every seed followed by a respelled copy of itself (same sections; also under another township) x 8 modes: the
    same flag arises twice with different context strings and the pairing invariants must hold.
(3) Re-use: all sequences of up to 3 (quick) / 4 (thorough) tract-level re-parse operations (PLSSDesc.parse_tracts with and without
    overrides, TractList.parse_tracts, Tract.parse on each tract, PLSSDesc.parse) applied to each of 16 parsed seeds x 3 flag-raising
    suffixes x 2 modes: the typing / pairing / hand-down invariants must still hold afterwards.
"""
import warnings

from ..core import Acc, import_pytrs
from .. import soup

ID = 'C10'
LEVEL = 'model_checking'
TECHNIQUE = ('token-soup / damage-edit enumeration x parse modes with a typing-pairing-hand-down invariant on every result, plus all '
             'placements of 34 trigger phrases at every token boundary of 16 seed descriptions x 11 modes, plus all sequences of up to '
             '3/4 re-parse operations on parsed descriptions (same invariant after every sequence)')
LEVEL_TEXT = ('The flag invariants (lists of str paired one-to-one with 2-tuples of str, description flags present on every tract, '
              'flawed iff error flag, error TRS implies error flag) are evaluated on every result of the C03 space; the trigger clause '
              'is decided on every insertion point of every phrase in every seed; the hand-down invariant is re-evaluated after every sequence of '
              'up to 3 (quick) / 4 (thorough) of 6 re-parse operations on every seed. Both known historic failures (a tuple stored as a '
              'flag in the second colon pass; a bare str stored as a flag line for an ignored Twp/Rge) need <= 4 tokens.')
LEVEL_NOTE = ('Trusted: the phrase -> flag table in mc/props/c10.py (taken from pytrs/parser/rgxlib/warnings.py comments). `segment` is '
              'excluded from the trigger clause only, because its documentation says segmenting can cause flags to be missed.')
RULE = (
    "state = (text, parse mode) as in C03, plus (seed, insertion point, phrase, mode) for the trigger clause; every state is "
    "executed; non-trivial = states whose result carries at least one flag (invariants) / every trigger placement."
)
ASSUMPTIONS = [
    "flag order between a description and its tracts is not compared, only membership (the statement says 'present on')",
]

TRIGGERS = {
    'less and except the north 10 acres': ('less_except', ['less', 'except']),
    'except the road': ('less_except', ['except']),
    'limited to the Bakken': ('less_except', ['limit']),
    'insofar as it covers': ('insofar', ['insofar']),
    'only in so far as': ('insofar', ['in so far']),
    'but only insofar as': ('insofar', ['insofar']),
    'including all accretions': ('including', ['includ']),
    'from the surface to the base of the formation': ('depth', ['surface', 'base', 'formation']),
    'all depths below 100 feet': ('depth', ['depth']),
    'down to the top of the Bakken': ('depth', ['down', 'top']),
    'the Johnston wellbore': ('well', ['wellbore']),
    'the well': ('well', ['well']),
    'all existing wellbores': ('well', ['wellbores']),
    'the producing wells': ('well', ['wells']),
    'THE WELLBORE': ('well', ['wellbore']),
    'excepting therefrom the road': ('less_except', ['except']),
    'subject to the limitations of record': ('less_except', ['limit']),
    'LIMITED TO the Bakken': ('less_except', ['limit']),
    'all Depths': ('depth', ['depth']),
    'the Surface only': ('depth', ['surface']),
    'the Three Forks Formation': ('depth', ['formation']),
    'Including the minerals': ('including', ['includ']),
    'incl. all improvements': ('including', ['incl']),
    'INSOFAR AND ONLY INSOFAR as': ('insofar', ['insofar']),
    'only in so \nfar as it covers': ('insofar', ['in so']),
    'in \nso  far as': ('insofar', ['so']),
    'IN SO\n FAR AS': ('insofar', ['in so']),
    'less  and \nexcept the road': ('less_except', ['less']),
    'limited\n to the Bakken': ('less_except', ['limit']),
    'from the surface\n down to 100 feet': ('depth', ['surface', 'down']),
    'Less And Except the road': ('less_except', ['less', 'except']),
    # plural and compound forms of the depth words
    'the Bakken and Three Forks formations': ('depth', ['formation']),
    'as to subsurface rights only': ('depth', ['surface']),
    'all depths and formations': ('depth', ['depth', 'formation']),
}
TRIGGER_MODES = ['default', 'sec_within', 'sec_colon_required', 'sec_colon_cautious', 'cfg:TRS_desc', 'cfg:desc_STR', 'cfg:S_desc_TR',
                 'cfg:TR_desc_S', 'cfg:copy_all', 'ocr_scrub', 'clean_qq']
# (3) flags stay shared while the objects are re-used: every sequence of up to SEQ_DEPTH tract-level re-parses after the parse
SEQ_OPS = {
    'parse_tracts()': lambda d: d.parse_tracts(),
    'parse_tracts(qq_depth=1)': lambda d: d.parse_tracts(qq_depth=1),
    'parse_tracts(clean_qq=True)': lambda d: d.parse_tracts(clean_qq=True),
    'tracts.parse_tracts()': lambda d: d.tracts.parse_tracts(),
    'each tract.parse()': lambda d: [t.parse() for t in d.tracts],
    'parse()': lambda d: d.parse(),
}
SEQ_DEPTH = {'quick': 3, 'thorough': 4}
SEQ_PHRASES = ['', 'less and except the wellbore', 'QXZV foo |']    # 'x |': prefix (unused text -> error flag)
SEQ_MODES = ['default', 'clean_qq']
_p = None


def worker_init(tier):
    global _p
    _p = import_pytrs()
    warnings.simplefilter('ignore')


def units(tier):
    us = soup.plss_units(tier)
    for n in range(16):
        us.append({'k': 'trigger', 'seed': n})
    for n in range(16):
        us.append({'k': 'seq', 'seed': n})
    for n in range(16):
        us.append({'k': 'repeat', 'seed': n})
    for n in range(16):
        us.append({'k': 'pair', 'seed': n})
    return us


def space(tier):
    return {'bound': soup.space_text(tier) + f"; {len(TRIGGERS)} trigger phrases x every token boundary of 16 seeds x "
                     f"{len(TRIGGER_MODES)} modes; every ordered pair of {len(PAIR_PHRASES)} phrases of different kinds x {len(PAIR_ARRANGEMENTS)} arrangements x every token boundary x the same modes; all sequences of <= {SEQ_DEPTH[tier]} of {len(SEQ_OPS)} re-parse operations on 16 seeds x "
                     f"{len(SEQ_PHRASES)} flag-raising suffixes x {len(SEQ_MODES)} modes", 'caps_hit': []}


def check_flags(obj):
    """typing / pairing on one object -> (class, detail) or None"""
    for fa, la in (('w_flags', 'w_flag_lines'), ('e_flags', 'e_flag_lines')):
        fl, ll = getattr(obj, fa), getattr(obj, la)
        if not isinstance(fl, list) or not isinstance(ll, list):
            return 'flags_not_list', f"{fa}: {type(fl).__name__}, {la}: {type(ll).__name__}"
        for f in fl:
            if not isinstance(f, str):
                return 'flag_not_str', f"{fa} contains {f!r}"
        for x in ll:
            if not (isinstance(x, tuple) and len(x) == 2 and isinstance(x[0], str) and isinstance(x[1], str)):
                return 'flag_line_not_2tuple_of_str', f"{la} contains {x!r}"
        if len(fl) != len(ll):
            return 'flags_lines_length', f"{fa} has {len(fl)} entries, {la} has {len(ll)}: {fl!r} / {ll!r}"
        if [x[0] for x in ll] != fl:
            return 'flags_lines_pairing', f"{fl!r} vs {[x[0] for x in ll]!r}"
    if obj.flags != obj.e_flags + obj.w_flags or obj.flag_lines != obj.e_flag_lines + obj.w_flag_lines:
        return 'combined_flags', ''
    if obj.desc_is_flawed is not bool(obj.e_flags):
        return 'desc_is_flawed', f"{obj.desc_is_flawed!r} with e_flags={obj.e_flags!r}"
    return None


def judge(acc, text, mode):
    key = f"{mode[0]}|{text}"
    case = {'k': 'inv', 'text': text, 'mode': mode[0]}
    try:
        d = soup.parse(_p, text, mode)
        tracts = list(d.tracts)
    except Exception:  # noqa   (C03's subject)
        acc.case(key, 'EXC', nontrivial=False)
        acc.extra['exceptions_left_to_C03'] += 1
        return
    try:
        obs = [sorted(map(repr, d.w_flags)), sorted(map(repr, d.e_flags))]
    except Exception:  # noqa
        obs = 'unprintable'
    acc.case(key, obs, nontrivial=bool(d.w_flags or d.e_flags))
    acc.states += 1
    acc.transitions += 1
    bad = check_flags(d)
    if bad:
        acc.violation(bad[0], f"C10:{bad[0]}:desc:{bad[1][:60]}", case, got=bad[1], note='on the PLSSDesc')
        return
    for i, t in enumerate(tracts):
        bad = check_flags(t)
        if bad:
            acc.violation(bad[0], f"C10:{bad[0]}:tract:{bad[1][:60]}", case, got=bad[1], note=f"on tract {i}")
            return
        for fa in ('w_flags', 'e_flags', 'w_flag_lines', 'e_flag_lines'):
            missing = [f for f in getattr(d, fa) if f not in getattr(t, fa)]
            if missing:
                acc.violation('flag_not_on_tract', f"C10:flag_not_on_tract:{fa}:{key}", case, got=missing,
                              note=f"{fa} of the description missing on tract {i}")
                return
    if any(t.trs_is_error() for t in tracts) and not d.e_flags:
        acc.violation('error_trs_without_error_flag', f"C10:error_trs_without_error_flag:{key}", case,
                      got=[t.trs for t in tracts])
        return
    if d.e_flags:
        acc.guard('error_flag_seen')
    if d.w_flags:
        acc.guard('warning_flag_seen')
    if tracts and any(t.w_flags for t in tracts):
        acc.guard('tract_flag_seen')


def trigger_case(acc, seed_n, pos, phrase, mname):
    layout, si, seed = soup.seeds()[seed_n]
    toks = soup.tokenize(seed)
    bounds = [i for i in range(len(toks) + 1) if i == 0 or i == len(toks) or toks[i - 1].isspace() or toks[i].isspace()]
    if pos >= len(bounds):
        return False
    b = bounds[pos]
    text = ''.join(toks[:b]) + ' ' + phrase + ' ' + ''.join(toks[b:])
    flag, words = TRIGGERS[phrase]
    key = f"trig|{mname}|{text}"
    case = {'k': 'trigger', 'seed': seed_n, 'pos': pos, 'phrase': phrase, 'mode': mname, 'text': text}
    mode = soup.mode_by_name(mname)
    try:
        d = soup.parse(_p, text, mode)
    except Exception:  # noqa
        acc.case(key, 'EXC', nontrivial=False)
        acc.extra['exceptions_left_to_C03'] += 1
        return True
    acc.case(key, sorted(set(map(str, d.w_flags))))
    acc.states += 1
    acc.transitions += 1
    if flag not in d.w_flags:
        acc.violation('trigger_flag_missing', f"C10:trigger_flag_missing:{flag}:{key}", case, got=d.w_flags, exp=flag)
        return True
    ctxs = [c for f, c in d.w_flag_lines if f == flag and isinstance(c, str)]
    if not any(any(w.lower() in c.lower() for w in words) for c in ctxs):
        acc.violation('trigger_context_missing', f"C10:trigger_context_missing:{flag}:{key}", case, got=ctxs, exp=words)
        return True
    for t in d.tracts:
        if flag not in t.w_flags:
            acc.violation('trigger_flag_not_on_tract', f"C10:trigger_flag_not_on_tract:{flag}:{key}", case, got=t.w_flags)
            return True
    acc.guard('trigger_ok')
    return True


# one phrase per kind of warning; every ordered pair of two *different* kinds is placed together (the kinds are searched one after
# the other over the same text, so the outcome for one kind must not depend on where another kind's wording stands)
PAIR_PHRASES = ['less and except the north 10 acres', 'insofar as it covers', 'including all accretions',
                'from the surface to the base of the formation', 'the Johnston wellbore']
PAIR_ARRANGEMENTS = ['adjacent', 'second_at_end']


def pair_case(acc, seed_n, pos, p1, p2, arr, mname):
    layout, si, seed = soup.seeds()[seed_n]
    toks = soup.tokenize(seed)
    bounds = [i for i in range(len(toks) + 1) if i == 0 or i == len(toks) or toks[i - 1].isspace() or toks[i].isspace()]
    if pos >= len(bounds):
        return False
    b = bounds[pos]
    if arr == 'adjacent':
        text = ''.join(toks[:b]) + ' ' + p1 + ' ' + p2 + ' ' + ''.join(toks[b:])
    else:
        text = ''.join(toks[:b]) + ' ' + p1 + ' ' + ''.join(toks[b:]) + ' ' + p2
    key = f"pair|{mname}|{text}"
    case = {'k': 'pair', 'seed': seed_n, 'pos': pos, 'p1': p1, 'p2': p2, 'arr': arr, 'mode': mname, 'text': text}
    try:
        d = soup.parse(_p, text, soup.mode_by_name(mname))
    except Exception:  # noqa
        acc.case(key, 'EXC', nontrivial=False)
        acc.extra['exceptions_left_to_C03'] += 1
        return True
    acc.case(key, sorted(set(map(str, d.w_flags))))
    acc.states += 1
    acc.transitions += 1
    for phrase in (p1, p2):
        flag, words = TRIGGERS[phrase]
        if flag not in d.w_flags:
            acc.violation('trigger_flag_missing', f"C10:trigger_flag_missing:{flag}:{key}", case, got=d.w_flags, exp=flag,
                          note='two kinds of trigger wording in one description')
            return True
        ctxs = [c for f, c in d.w_flag_lines if f == flag and isinstance(c, str)]
        if not any(any(w.lower() in c.lower() for w in words) for c in ctxs):
            acc.violation('trigger_context_missing', f"C10:trigger_context_missing:{flag}:{key}", case, got=ctxs, exp=words)
            return True
    acc.guard('pair_ok')
    return True


def handed_down(d):
    """-> (class, detail) of the first broken invariant on the description or its tracts, or None"""
    bad = check_flags(d)
    if bad:
        return bad[0], 'desc: ' + bad[1]
    for i, t in enumerate(d.tracts):
        bad = check_flags(t)
        if bad:
            return bad[0], f"tract {i}: " + bad[1]
        for fa in ('w_flags', 'e_flags', 'w_flag_lines', 'e_flag_lines'):
            missing = [f for f in getattr(d, fa) if f not in getattr(t, fa)]
            if missing:
                return 'flag_not_on_tract', f"{fa} of the description missing on tract {i}: {missing!r}"
    return None


def seq_case(acc, seed_n, phrase, mname, ops):
    layout, si, seed = soup.seeds()[seed_n]
    text = (phrase[:-1] + seed) if phrase.endswith('|') else (seed + ' ' + phrase).strip()
    key = f"seq|{mname}|{text}|{' ; '.join(ops)}"
    case = {'k': 'seq', 'seed': seed_n, 'phrase': phrase, 'mode': mname, 'ops': list(ops), 'text': text}
    try:
        d = soup.parse(_p, text, soup.mode_by_name(mname))
        for name in ops:
            SEQ_OPS[name](d)
    except Exception:  # noqa
        acc.case(key, 'EXC', nontrivial=False)
        acc.extra['exceptions_left_to_C03'] += 1
        return
    acc.case(key, [sorted(map(str, d.flags))] + [sorted(map(str, t.flags)) for t in d.tracts], nontrivial=bool(d.flags))
    acc.states += 1
    acc.transitions += len(ops)
    bad = handed_down(d)
    if bad:
        acc.violation(bad[0], f"C10:seq:{bad[0]}:{' ; '.join(ops)}", case, got=bad[1], note='after the operation sequence on a parsed description')
        return
    if d.flags and d.tracts:
        acc.guard('seq_flags_checked')


def seq_histories(depth):
    out = [()]
    frontier = [()]
    for _ in range(depth):
        frontier = [h + (o,) for h in frontier for o in SEQ_OPS]
        out += frontier
    return out[1:]


def respell(text):
    """The same description with its keywords and connectives written differently (so that the same flag is raised with a
    different context string)."""
    swaps = [('Sections ', 'Secs '), ('Section ', 'Sec. '), ('Secs ', 'Sections '), ('Sec ', 'Section '), (' - ', ' through '),
             (' through ', ' - '), ('Lots ', 'Lot '), (' and ', ' & ')]
    out, i = '', 0
    while i < len(text):
        for a, b in swaps:
            if text.startswith(a, i):
                out += b
                i += len(a)
                break
        else:
            out += text[i]
            i += 1
    return out


REPEAT_EXTRA = [
    'T154N-R97W Sec 14: That part of the NE/4 of Section 14 lying north of the river, and that part of the NW/4 of Sec. 14 lying '
    'south of it, Sec 15: W/2',
    'T154N-R97W Secs 1 - 3: ALL, T155N-R97W Sections 1-3: ALL',
    'T154-R97 Sec 14: NE/4 less and except the wellbore, T154-R97 Sec 15: Less & Except the well bore',
]


def repeat_texts(seed_n):
    """A seed followed by a respelled copy of itself (same sections and Twp/Rge), by a respelled copy under another township, and the
    fixed texts: the same flag arises twice, with different context strings."""
    layout, si, seed = soup.seeds()[seed_n]
    r = respell(seed)
    out = [seed + '\n' + r, seed + ', ' + r.replace('T154N', 'T155N').replace('Township 154', 'Township 155'), r + '\n' + seed]
    if seed_n < len(REPEAT_EXTRA):
        out.append(REPEAT_EXTRA[seed_n])
    return out


REPEAT_MODES = ['default', 'segment', 'sec_colon_cautious', 'sec_colon_required', 'cfg:TRS_desc', 'cfg:desc_STR', 'sec_within', 'clean_qq']


def run_unit(unit, tier):
    acc = Acc()
    if unit['k'] == 'repeat':
        for text in repeat_texts(unit['seed']):
            for mname in REPEAT_MODES:
                judge(acc, text, soup.mode_by_name(mname))
                acc.guard('repeat_checked')
        return acc.result()
    if unit['k'] == 'seq':
        for hist in seq_histories(SEQ_DEPTH[tier]):
            for phrase in SEQ_PHRASES:
                for mname in SEQ_MODES:
                    seq_case(acc, unit['seed'], phrase, mname, hist)
    elif unit['k'] == 'pair':
        for p1 in PAIR_PHRASES:
            for p2 in PAIR_PHRASES:
                if p1 == p2:
                    continue
                for arr in PAIR_ARRANGEMENTS:
                    for mname in TRIGGER_MODES:
                        pos = 0
                        while pair_case(acc, unit['seed'], pos, p1, p2, arr, mname):
                            pos += 1
    elif unit['k'] == 'trigger':
        for phrase in TRIGGERS:
            for mname in TRIGGER_MODES:
                pos = 0
                while trigger_case(acc, unit['seed'], pos, phrase, mname):
                    pos += 1
    else:
        for text, mode in soup.unit_cases(unit, tier):
            judge(acc, text, mode)
    return acc.result()


def replay(case):
    acc = Acc()
    if case.get('k') == 'seq':
        seq_case(acc, case['seed'], case['phrase'], case['mode'], tuple(case['ops']))
    elif case.get('k') == 'trigger':
        trigger_case(acc, case['seed'], case['pos'], case['phrase'], case['mode'])
    elif case.get('k') == 'pair':
        pair_case(acc, case['seed'], case['pos'], case['p1'], case['p2'], case['arr'], case['mode'])
    else:
        judge(acc, case['text'], soup.mode_by_name(case['mode']))
    return acc.viol


def guards(info):
    g = info['guards']
    out = []
    for name in ('error_flag_seen', 'warning_flag_seen', 'tract_flag_seen', 'trigger_ok', 'seq_flags_checked', 'repeat_checked', 'pair_ok'):
        if not g.get(name):
            out.append(f"never observed: {name}")
    return out
