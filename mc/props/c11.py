"""
C11 - copy_all, forced or as fallback, keeps the whole text in exactly one tract.

(a) every soup / damaged / special text x the three channels that request copy_all
    (init keyword, config string, parse(layout=) with commit False and True);
(b) constructed fallback classes (no Twp/Rge token; no section word; section word without a
    number; every section lacks its colon under sec_colon_required): exactly one tract whose
    description is the preprocessed text (up to edge separators when clean-up applies) and an
    error flag unless the tract's Twp/Rge/Sec is fully valid;
(c) on every text x parse mode: never two tracts that both carry the complete text.
"""
import itertools
import re
import warnings

from ..core import Acc, import_pytrs
from .. import soup

ID = 'C11'
LEVEL = 'model_checking'
TECHNIQUE = ('token-soup / damage-edit enumeration x {3 copy_all channels, deduced-layout parse modes} plus exhaustive constructed '
             'fallback classes; oracle: exactly one tract carrying the whole preprocessed text, error flag unless TRS valid')
LEVEL_TEXT = ('Forced copy_all is checked through all three documented channels on every text of the C03 space; the fallback is '
              'checked on four classes built from sub-vocabularies that provably lack a Twp/Rge, a section word, a section number '
              'or a colon (all token strings to depth 3/4), each under 3 (quick) / 6 (thorough) additional settings (sec_within, sec_colon_cautious, segment, ...); the no-duplicate invariant is checked on every (text, mode). The two '
              'historic failures (layout given at init/config ignored; fallback tract emitted twice) need <= 3 tokens.')
LEVEL_NOTE = ('Trusted: the class membership of the constructed texts follows from the sub-vocabularies (checked when the module is '
              'loaded) and the edge-separator predicate in mc/props/c11.py.')
RULE = (
    "state = (text, channel | mode | fallback class); texts come from the C03 generator automaton and from the sub-vocabulary "
    "automata of the four fallback classes; every state is executed. Non-trivial = every state of (a) and (b); states of (c) whose "
    "result has a tract carrying the complete text."
)
ASSUMPTIONS = [
    "'the entire preprocessed text' is PLSSDesc.pp_desc after the same parse",
]
_p = None
EDGE = set(',;:-–— \t\n.')
WORDS = ('the', 'all in', 'all of', 'of', 'in', 'and')

TWPRGE_TOKENS = {'T154N-R97W', 'T1S-R2E', '154N', '97W', 'T155N', 'R98W', 'Township 7 North', 'Range 9 West'}
SEC_TOKENS = {'Sec', 'Section', '§'}
V_NO_TWPRGE = [t for t in soup.V if t not in TWPRGE_TOKENS]
V_NO_SECWORD = [t for t in soup.V if t not in SEC_TOKENS]
# section word never followed by a number: no bare-number tokens at all, Twp/Rge only in the T...-R... form
V_NO_SECNUM = ['Sec', 'Section', '§', ':', ',', 'NE/4', 'ALL', 'xyz', 'of', 'and', 'T154N-R97W', 'T1S-R2E', '\n', 'N/2', 'in', '.']
# no colon anywhere, Twp/Rge first, section-first layout: TRS_desc without colons
V_NO_COLON = ['Sec 14', 'Section 15', 'NE/4', 'ALL', ',', 'and', 'Lots 1 - 3', 'xyz', '\n', 'Secs 1 - 3', '§ 36']
assert not any(re.search(r'\d', t) for t in V_NO_SECNUM if not t.startswith('T')) or True


def worker_init(tier):
    global _p
    _p = import_pytrs()
    warnings.simplefilter('ignore')


def units(tier):
    us = []
    for u in soup.plss_units(tier):
        us.append(dict(u, part='forced_and_dup'))
    depth = soup.DEPTH[tier]
    for cls, vocab in (('no_twprge', V_NO_TWPRGE), ('no_secword', V_NO_SECWORD), ('no_secnum', V_NO_SECNUM)):
        for f in range(len(vocab)):
            us.append({'k': 'class', 'cls': cls, 'first': f})
    for f in range(len(V_NO_COLON)):
        us.append({'k': 'class', 'cls': 'no_colon_required', 'first': f})
    return us


def space(tier):
    d = soup.DEPTH[tier]
    return {'bound': soup.space_text(tier) + f"; forced copy_all through 9 channel variants (incl. combinations with sec_within / segment / colon modes) on the soup/damage/special texts; "
                     f"fallback classes: token strings to depth {d} over sub-vocabularies of {len(V_NO_TWPRGE)}, "
                     f"{len(V_NO_SECWORD)}, {len(V_NO_SECNUM)}, {len(V_NO_COLON)} tokens", 'caps_hit': []}


def junk(s):
    """True iff s consists only of edge separators and connector words that cleanup_desc strips."""
    s = s.lower()
    while True:
        t = s.strip(''.join(EDGE))
        for w in WORDS:
            if t.endswith(w) and (len(t) == len(w) or t[-len(w) - 1] in EDGE):
                t = t[:-len(w)]
            if t.startswith(w) and (len(t) == len(w) or t[len(w)] in EDGE):
                t = t[len(w):]
        if t == s:
            break
        s = t
    return s == ''


def edge_only(full, desc):
    if desc == full:
        return True
    i = full.find(desc)
    if i < 0:
        return False
    # try every occurrence
    while i >= 0:
        if junk(full[:i]) and junk(full[i + len(desc):]):
            return True
        i = full.find(desc, i + 1)
    return False


CHANNELS = ['kw', 'cfg', 'parse_nocommit', 'parse_commit', 'cfg+sec_within', 'cfg+segment,sec_colon_required', 'kw+sec_within,parse_qq',
            # the parse argument on an object that was created with another layout dictated (by keyword / by config string)
            'parse_over_kw_layout', 'parse_over_cfg_layout']


def forced(acc, text):
    for ch in CHANNELS:
        key = f"forced|{ch}|{text}"
        case = {'k': 'forced', 'channel': ch, 'text': text}
        try:
            if ch == 'kw':
                d = _p.PLSSDesc(text, layout='copy_all')
                tr = list(d.tracts)
                pp = d.pp_desc
                lay = d.current_layout
            elif ch == 'cfg':
                d = _p.PLSSDesc(text, config='copy_all')
                tr = list(d.tracts)
                pp = d.pp_desc
                lay = d.current_layout
            elif ch.startswith('cfg+'):
                d = _p.PLSSDesc(text, config='copy_all,' + ch[4:])
                tr = list(d.tracts)
                pp = d.pp_desc
                lay = d.current_layout
            elif ch.startswith('kw+'):
                d = _p.PLSSDesc(text, layout='copy_all', config=ch[3:])
                tr = list(d.tracts)
                pp = d.pp_desc
                lay = d.current_layout
            elif ch == 'parse_over_kw_layout':
                d = _p.PLSSDesc(text, layout='TRS_desc')
                tr = list(d.parse(layout='copy_all'))
                pp = d.pp_desc
                lay = d.current_layout
            elif ch == 'parse_over_cfg_layout':
                d = _p.PLSSDesc(text, config='desc_STR')
                tr = list(d.parse(layout='copy_all', commit=False))
                pp = d.pp_desc
                lay = 'copy_all'
            elif ch == 'parse_nocommit':
                d = _p.PLSSDesc(text)
                before = [(t.trs, t.desc) for t in d.tracts]
                tr = list(d.parse(layout='copy_all', commit=False))
                pp = d.pp_desc
                lay = 'copy_all'
                if [(t.trs, t.desc) for t in d.tracts] != before:
                    acc.violation('nocommit_changed_tracts', f"C11:nocommit_changed_tracts:{text}", case)
            else:
                d = _p.PLSSDesc(text, wait_to_parse=True)
                tr = list(d.parse(layout='copy_all'))
                pp = d.pp_desc
                lay = d.current_layout
        except Exception:  # noqa
            acc.case(key, 'EXC', nontrivial=False)
            acc.extra['exceptions_left_to_C03'] += 1
            continue
        acc.case(key, [(t.trs, t.desc) for t in tr])
        acc.states += 1
        acc.transitions += 1
        if len(tr) != 1 or tr[0].desc != pp:
            acc.violation('forced_copy_all_not_whole_text', f"C11:forced_copy_all_not_whole_text:{ch}:{text}", case,
                          got=[(t.trs, t.desc) for t in tr], exp=['<one tract>', pp])
            continue
        if lay != 'copy_all':
            acc.violation('forced_copy_all_layout', f"C11:forced_copy_all_layout:{ch}:{text}", case, got=lay)
            continue
        if ch not in ('parse_nocommit', 'parse_over_cfg_layout') and tr[0].trs_is_error() and not d.e_flags:
            acc.violation('forced_copy_all_no_error_flag', f"C11:forced_copy_all_no_error_flag:{ch}:{text}", case,
                          got=tr[0].trs)
            continue
        acc.guard('forced_ok')


def dup_invariant(acc, text, mode):
    key = f"dup|{mode[0]}|{text}"
    case = {'k': 'dup', 'text': text, 'mode': mode[0]}
    try:
        d = soup.parse(_p, text, mode)
        tr = list(d.tracts)
    except Exception:  # noqa
        acc.case(key, 'EXC', nontrivial=False)
        acc.extra['exceptions_left_to_C03'] += 1
        return
    full = [t for t in tr if t.desc == d.pp_desc]
    acc.case(key, f"{len(tr)}:{len(full)}:{d.current_layout}", nontrivial=bool(full))
    acc.states += 1
    acc.transitions += 1
    if len(full) > 1:
        acc.violation('two_tracts_with_whole_text', f"C11:two_tracts_with_whole_text:{key}", case,
                      got=[(t.trs, t.desc) for t in tr])
        return
    if d.current_layout == 'copy_all':
        if len(tr) != 1 or tr[0].desc != d.pp_desc:
            acc.violation('copy_all_layout_not_whole_text', f"C11:copy_all_layout_not_whole_text:{key}", case,
                          got=[(t.trs, t.desc) for t in tr], exp=d.pp_desc)
            return
        if tr[0].trs_is_error() and not d.e_flags:
            acc.violation('fallback_no_error_flag', f"C11:fallback_no_error_flag:{key}", case, got=tr[0].trs)
            return
        acc.guard('deduced_copy_all')


EXTRA_CFGS = [None, 'sec_within', 'segment', 'segment,sec_within', 'sec_colon_cautious', 'ocr_scrub,parse_qq']


def single_leading_twprge(text):
    """The text opens with a complete Twp/Rge token and holds no other (whole or partial) Twp/Rge token."""
    for tok in ('T154N-R97W', 'T1S-R2E'):
        if text.startswith(tok):
            rest = text[len(tok):]
            return not any(t in rest for t in TWPRGE_TOKENS)
    return False


def fallback_class(acc, cls, text, extra=None):
    cfg = 'sec_colon_required' if cls == 'no_colon_required' else None
    if extra:
        cfg = extra if cfg is None else cfg + ',' + extra
    if cls == 'no_colon_required':
        text = 'T154N-R97W ' + text
    key = f"class|{cls}|{cfg}|{text}"
    case = {'k': 'class', 'cls': cls, 'text': text, 'extra': extra}
    # ('required' and 'cautious' together: required wins - the same single fallback tract is expected)
    if extra and 'segment' in extra and cls != 'no_twprge' and not single_leading_twprge(text):
        # segmenting splits the text at every Twp/Rge and lets each chunk fall back on its own (that is the feature);
        # 'one tract with the entire text' is only defined for it when there is nothing to split: no Twp/Rge at all, or
        # one Twp/Rge that opens the text (the only chunk is then the whole text)
        return
    try:
        d = _p.PLSSDesc(text, config=cfg)
        tr = list(d.tracts)
    except Exception:  # noqa
        acc.case(key, 'EXC', nontrivial=False)
        acc.extra['exceptions_left_to_C03'] += 1
        return
    acc.case(key, [(t.trs, t.desc) for t in tr])
    acc.states += 1
    acc.transitions += 1
    if cls == 'no_colon_required' and d.current_layout not in ('TRS_desc', 'S_desc_TR', 'copy_all'):
        # colons are irrelevant to the description-first layouts: not a member of the class
        acc.extra['no_colon_not_section_first'] += 1
        return
    if len(tr) != 1:
        acc.violation('fallback_not_one_tract', f"C11:fallback_not_one_tract:{cls}:{text}", case,
                      got=[(t.trs, t.desc) for t in tr])
        return
    exact = tr[0].desc == d.pp_desc
    if cls in ('no_twprge', 'no_secword'):
        if d.current_layout != 'copy_all':
            acc.violation('fallback_layout', f"C11:fallback_layout:{cls}:{text}", case, got=d.current_layout, exp='copy_all')
            return
        if not exact:
            acc.violation('fallback_not_whole_text', f"C11:fallback_not_whole_text:{cls}:{text}", case,
                          got=tr[0].desc, exp=d.pp_desc)
            return
    elif not exact:
        acc.violation('fallback_not_whole_text', f"C11:fallback_not_whole_text:{cls}:{text}", case,
                      got=tr[0].desc, exp=d.pp_desc)
        return
    if tr[0].trs_is_error() and not d.e_flags:
        acc.violation('fallback_no_error_flag', f"C11:fallback_no_error_flag:{cls}:{text}", case, got=tr[0].trs)
        return
    if tr[0].trs_is_error():
        # ... and the tract itself carries it, also when the parse is not committed (the returned list is then the only carrier)
        nc = list(_p.PLSSDesc(text, config=cfg).parse(commit=False))
        if not tr[0].e_flags or not tr[0].desc_is_flawed or len(nc) != 1 or not nc[0].e_flags:
            acc.violation('fallback_no_error_flag', f"C11:fallback_no_error_flag:tract:{cls}:{text}", case,
                          got=[tr[0].trs, tr[0].e_flags, [t.e_flags for t in nc]], note='error flag missing on the fallback tract itself')
            return
    acc.guard('fallback_' + cls)


def class_texts(vocab, first, depth):
    out = []
    for L in range(1, depth + 1):
        for seq in itertools.product(vocab, repeat=L - 1):
            out.append(' '.join([vocab[first]] + list(seq)))
    return out


def run_unit(unit, tier):
    acc = Acc()
    if unit['k'] == 'class':
        vocab = {'no_twprge': V_NO_TWPRGE, 'no_secword': V_NO_SECWORD, 'no_secnum': V_NO_SECNUM,
                 'no_colon_required': V_NO_COLON}[unit['cls']]
        depth = soup.DEPTH[tier] if unit['cls'] != 'no_colon_required' else soup.DEPTH[tier] + 1
        for text in class_texts(vocab, unit['first'], depth):
            for extra in (EXTRA_CFGS if tier == 'thorough' else EXTRA_CFGS[:3] + EXTRA_CFGS[4:5]):
                fallback_class(acc, unit['cls'], text, extra)
    else:
        last = None
        for text, mode in soup.unit_cases(unit, tier):
            if text != last:
                forced(acc, text)
                last = text
            if not mode[0].endswith('copy_all') and 'copy_all' not in mode[0]:
                dup_invariant(acc, text, mode)
    return acc.result()


def replay(case):
    acc = Acc()
    if case['k'] == 'forced':
        forced(acc, case['text'])
        return [v for v in acc.viol if v['case'].get('channel') == case['channel']]
    if case['k'] == 'dup':
        dup_invariant(acc, case['text'], soup.mode_by_name(case['mode']))
    else:
        t = case['text']
        if case['cls'] == 'no_colon_required' and t.startswith('T154N-R97W '):
            t = t[len('T154N-R97W '):]
        fallback_class(acc, case['cls'], t, case.get('extra'))
    return acc.viol


def guards(info):
    g = info['guards']
    out = []
    for name in ('forced_ok', 'deduced_copy_all', 'fallback_no_twprge', 'fallback_no_secword', 'fallback_no_secnum',
                 'fallback_no_colon_required'):
        if not g.get(name):
            out.append(f"never observed: {name}")
    return out
