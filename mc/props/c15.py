"""
C15 - results depend only on text and settings, not on what ran before.

Explicit enumeration of event histories on the *process-global* state of the library (MasterConfig
defaults, TRS cache content, TRS._USE_CACHE, objects kept alive, previously returned dicts/lists):
every sequence of up to 3 (quick) / 4 (thorough) events from a menu of 20, followed by a probe battery
whose observations must equal those of the same battery in a *fresh interpreter* started with the
MasterConfig values in force at probe time; then MasterConfig is restored and the battery must equal
the pristine one.
"""
import itertools
import json
import os
import subprocess
import sys
import warnings

from ..core import Acc, import_pytrs, VERIF, REPO, h64, jdump
from .. import c15_probe

ID = 'C15'
STATES_FROM_OUTCOMES = True    # distinct canonical global states reached
LEVEL = 'model_checking'
TECHNIQUE = ('exhaustive enumeration of event histories on process-global state (defaults, TRS cache, cache switch, mutated return '
             'values, live objects) followed by a probe battery; differential oracle = same battery in a fresh interpreter')
LEVEL_TEXT = ('All histories of up to 3 (quick) / 4 (thorough) events out of 20 - copy_all parses of multi-section texts whose wording recurs in the probes, re-use of one caller-held Config object with per-call overrides, parse other descriptions whose TRS strings collide '
              'with the probes up to direction letters, set/restore each MasterConfig default, clear / disable / enable / pre-warm the '
              'TRS cache, mutate every dict and list previously returned by the conversion functions, create objects under other '
              'defaults and keep them alive - are executed in one process and followed by a 60-observation probe battery compared with '
              'a fresh-interpreter reference. Hidden coupling through a cache key, a shared dict or an import-time default shows after '
              'one or two events.')
LEVEL_NOTE = ('Trusted: a fresh interpreter as the definition of "no history"; the canonical global state (defaults, cache flag, sorted '
              'cache keys) used only for counting distinct states, not for pruning.')
RULE = (
    "state = process-global state after an event history; transition = one event; all histories up to the depth bound are executed "
    "without pruning (distinct canonical global states are counted); after each history the probe battery runs twice (as is, and after "
    "restoring MasterConfig). Non-trivial = histories of length >= 1."
)
ASSUMPTIONS = [
    "global state of pytrs = MasterConfig class attributes, TRS class attributes (cache, switch), Tract creation counter, module-level "
    "constants; nothing outside the process (no files, no environment) influences parsing",
]
DEPTH = {'quick': 3, 'thorough': 4}
_p = None
keep = []
keep_cfg = {}
_last = {}


def worker_init(tier):
    global _p
    _p = import_pytrs()
    warnings.simplefilter('ignore')


def ev_parse_other_dirs():
    d = _p.PLSSDesc('T154S-R97E Sec 14: NE/4, Sec 15: S/2', parse_qq=True)
    _last['desc'] = d


def ev_parse_dirless():
    d = _p.PLSSDesc('T154-R97 Sec 14: Lots 1 - 3, Sec 1: ALL', parse_qq=True)
    _last['desc'] = d


def ev_parse_same_text_other_cfg():
    d = _p.PLSSDesc('T154-R97 Sec 14: NE/4', config='s,e,clean_qq,qq_depth.1', parse_qq=True)
    _last['desc'] = d


def ev_parse_ocr():
    _last['desc'] = _p.PLSSDesc('TI54N-R97W Sec 14: NE/4', config='ocr_scrub', parse_qq=True)
    _p.find_twprge('Tl54N-R9SW', ocr_scrub=True)
    _last['desc'].preprocess(ocr_scrub=True)


def ev_parse_modes():
    _p.PLSSDesc('T154N-R97W That part of the NE of Sec 14 lying north, T155N-R97W Sec 1 ALL', parse_qq=True,
                config='segment,sec_within,clean_qq,sec_colon_cautious,qq_depth.1,break_halves,suppress_lot_divs')
    _p.PLSSDesc('Sec 14: NE/4, T154N-R97W', layout='desc_STR')
    t = _p.Tract('N/2 of Lot 1, NE', trs='154n97w14', config='clean_qq,suppress_lot_divs,qq_depth.3', parse_qq=True)
    t.parse(clean_qq=False, qq_depth=1)


def ev_copy_all_multisec():
    _p.PLSSDesc('Sections 1 - 3: That part lying north of the river')               # no Twp/Rge: deduced copy_all
    _p.PLSSDesc('Township 154, Range 97 West, Sections 1 - 3: Lot 1', layout='copy_all', parse_qq=True)
    _p.PLSSDesc('T154N-R97W Sec 14 NE/4, Sec 15: W/2', config='sec_colon_required')   # chunk-level fallback
    _p.find_sec('Sections 1 - 3: NE/4, Sec 1 - 3, 5')
    d = _p.PLSSDesc('T154N-R97W Sec 1 - 3, 5: NE/4')
    d.parse(layout='copy_all')


def ev_ns_s():
    _p.MasterConfig.default_ns = 's'


def ev_ns_n():
    _p.MasterConfig.default_ns = 'n'


def ev_ew_e():
    _p.MasterConfig.default_ew = 'e'


def ev_ew_w():
    _p.MasterConfig.default_ew = 'w'


def ev_clear():
    _p.TRS._clear_cache()


def ev_nocache():
    _p.TRS._USE_CACHE = False


def ev_cache():
    _p.TRS._USE_CACHE = True


def ev_warm():
    for s in ['154n97w14', '154s97e14', '154n97e14', '1154n97w14', '154n97w', '', '154nXXXz14', 'XXXzXXXzXX', '154n97w01',
              '154n97wXX', '___z97w__', '154N97W14']:
        _p.TRS(s)
        _p.Tract('w', trs=s)


def ev_mutate_dicts():
    for s in ['154n97w14', '154n97w', '154s97e14', '']:
        d = _p.trs_to_dict(s)
        d['sec'] = '99'
        d['trs'] = '1n1w01'
        d['twp_num'] = 7
        d = _p.TRS.trs_to_dict(s)
        d.clear()
        d = _p.TRS.trs_to_dict(_p.TRS(s))
        d['rge'] = 'bogus'


def ev_mutate_returned():
    d = _last.get('desc') or _p.PLSSDesc('T154N-R97W Sec 14: Lots 1, 1, N/2NE/4', parse_qq=True)
    g = d.group_by('twprge')
    for k in list(g):
        g[k].pop(0) if len(g[k]) else None
    g.clear()
    recs = d.tracts_to_dict('trs', 'lots', 'qqs', 'w_flags', 'lot_acres')
    for r in recs:
        for v in r.values():
            if isinstance(v, list):
                v.append('junk')
            elif isinstance(v, dict):
                v['L99'] = '1'
    lst = d.list_trs()
    lst.append('junk')
    d.w_flags.append('junk_flag')
    f = _p.find_twprge('T154N-R97W')
    f.append('junk')
    c = _p.Config('n,w')
    c.default_ns = 's'


def ev_keep_objects():
    keep.append(_p.Tract.from_twprgesec('NE/4', 154, 97, 14, parse_qq=True))
    keep.append(_p.TRS.from_twprgesec(1, 2, 3))
    keep.append(_p.PLSSDesc('T154-R97 Sec 14: NE/4'))
    keep_cfg[id(keep[-1])] = ''
    keep.append(_p.PLSSDesc('T154-R97 Sec 1: N/2 of Lot 1, Lot 2, NE', config='suppress_lot_divs,clean_qq', wait_to_parse=True))
    keep_cfg[id(keep[-1])] = 'suppress_lot_divs,clean_qq'       # what the caller configured, remembered by the caller


def ev_sort_kept():
    tl = _p.TractList([k for k in keep if isinstance(k, _p.Tract)] + [_p.Tract('z', trs='1s2e05')])
    tl.custom_sort('i,s.rev')


def ev_reparse_kept():
    for k in keep:
        if isinstance(k, _p.PLSSDesc):
            k.parse(default_ns='s', parse_qq=True)
        elif isinstance(k, _p.Tract):
            k.parse(clean_qq=True)


def ev_shared_config():
    """The caller keeps one Config object and uses it for several objects, with per-call overrides in between."""
    from .. import c15_probe
    cfg = c15_probe.SHARED.get('cfg')
    if cfg is None:
        cfg = c15_probe.SHARED['cfg'] = _p.Config('n,w')
    d = _p.PLSSDesc('T154N-R97W Sec 14: N/2, NE', config=cfg, parse_qq=True)
    d.parse(qq_depth=1, clean_qq=True, commit=False)
    d.parse(qq_depth_min=3, break_halves=True, segment=True, ocr_scrub=True)
    d.parse_tracts(qq_depth_max=1, suppress_lot_divs=True)
    t = _p.Tract('NE, N/2 of Lot 1', trs='154n97w14', config=cfg, parse_qq=True)
    t.parse(clean_qq=True, qq_depth=1)
    tl = _p.TractList([t])
    tl.parse_tracts(config=cfg, clean_qq=True)
    _p.Tract.from_twprgesec('NE/4', 154, 97, 14, default_ns='s', default_ew='e', config=cfg, parse_qq=True)
    _p.Tract.from_twprgesec('NE/4', '154', '97', '14', default_ns='s', config=cfg)
    d.parse_tracts(config=cfg, qq_depth=1)
    tl.config_tracts(cfg)
    d2 = _p.PLSSDesc('NE/4 of Sec 1, T1-R2', wait_to_parse=True)
    d2.config = cfg
    d2.parse(default_ns='s', default_ew='e', parse_qq=True)


EVENTS = [ev_shared_config, ev_copy_all_multisec, ev_parse_other_dirs, ev_parse_dirless, ev_parse_same_text_other_cfg, ev_parse_ocr, ev_parse_modes, ev_ns_s, ev_ns_n, ev_ew_e, ev_ew_w, ev_clear,
          ev_nocache, ev_cache, ev_warm, ev_mutate_dicts, ev_mutate_returned, ev_keep_objects, ev_sort_kept, ev_reparse_kept]
NAMES = [e.__name__[3:] for e in EVENTS]


def reset():
    MC, TRS = _p.MasterConfig, _p.TRS
    MC.default_ns, MC.default_ew = 'n', 'w'
    TRS._USE_CACHE = True
    TRS._clear_cache()
    keep.clear()
    keep_cfg.clear()
    _last.clear()
    from .. import c15_probe
    c15_probe.SHARED.clear()


def global_state():
    MC, TRS = _p.MasterConfig, _p.TRS
    cache = getattr(TRS, '_TRS__CACHE', {})
    from .. import c15_probe
    return (MC.default_ns, MC.default_ew, TRS._USE_CACHE, tuple(sorted(map(str, cache.keys()))), len(keep), 'cfg' in c15_probe.SHARED)


def fresh_reference(ns, ew):
    env = dict(os.environ, PYTRS_VERIF_REPO=REPO, PYTHONDONTWRITEBYTECODE='1')
    out = subprocess.check_output([sys.executable, '-m', 'mc.c15_probe', ns, ew], cwd=VERIF, env=env)
    return json.loads(out)


_REF = None


def units(tier):
    global _REF
    # reference observations from four fresh interpreters (one per defaults combination), computed by the parent
    _REF = {f"{ns}{ew}": fresh_reference(ns, ew) for ns in 'ns' for ew in 'ew'}
    us = [{'first': None, 'ref': _REF}]
    n = len(EVENTS)
    for a in range(n):
        for b in range(n):
            us.append({'first': [a, b], 'ref': _REF})
    return us


def space(tier):
    return {'bound': f"event histories of length <= {DEPTH[tier]} over {len(EVENTS)} events; reference from 4 fresh interpreters",
            'caps_hit': []}


def diff_idx(a, b):
    if len(a) != len(b):
        return ['len']
    return [i for i, (x, y) in enumerate(zip(a, b)) if x != y]


def kept_check():
    """Objects created earlier in the history and kept by the caller: re-parsed now (no keywords), they must give what a fresh
    object with the same text and the same settings gives under the process state of *now*.  -> (got, want) of the first mismatch"""
    for k in list(keep):
        if isinstance(k, _p.PLSSDesc):
            cfg = keep_cfg.get(id(k), '')
            k.parse(parse_qq=True)
            got = [(t.trs, t.desc, t.lots, t.qqs) for t in k.tracts]
            f = _p.PLSSDesc(k.orig_desc, config=cfg or None, parse_qq=True)
            want = [(t.trs, t.desc, t.lots, t.qqs) for t in f.tracts]
            if got != want or k.pp_desc != f.pp_desc:
                return [got, k.pp_desc], [want, f.pp_desc]
    return None


def run_history(acc, seq, ref):
    key = ','.join(NAMES[i] for i in seq)
    case = {'history': [NAMES[i] for i in seq]}
    reset()
    try:
        for i in seq:
            EVENTS[i]()
        gs = global_state()
        MC = _p.MasterConfig
        now = f"{MC.default_ns}{MC.default_ew}"
        got = c15_probe.probe(_p)
        kept_bad = kept_check()
        MC.default_ns, MC.default_ew = 'n', 'w'
        got_restored = c15_probe.probe(_p)
        kept_bad = kept_bad or kept_check()
    except Exception as ex:  # noqa
        acc.case(key, 'EXC', nontrivial=bool(seq))
        acc.violation('exception', f"C15:exception:{key}", case, got=f"{type(ex).__name__}: {ex}")
        reset()
        return
    finally:
        pass
    acc.case(key, jdump(gs), nontrivial=bool(seq))
    acc.transitions += max(1, len(seq))
    want = ref[now]
    if kept_bad:
        acc.violation('kept_object_depends_on_history', f"C15:kept_object_depends_on_history:{key}", case, got=kept_bad[0], exp=kept_bad[1],
                      note='an object created earlier in the history, re-parsed now without keywords, differs from a fresh object with the '
                           'same text and settings')
    elif got != want:
        idx = diff_idx(got, want)
        acc.violation('history_dependent_result', f"C15:history_dependent_result:{key}", case,
                      got=[got[i] for i in idx[:2]] if idx != ['len'] else len(got),
                      exp=[want[i] for i in idx[:2]] if idx != ['len'] else len(want),
                      note=f"probe observations {idx[:8]} differ from a fresh interpreter with defaults {now}")
    elif got_restored != ref['nw']:
        idx = diff_idx(got_restored, ref['nw'])
        acc.violation('restore_does_not_restore', f"C15:restore_does_not_restore:{key}", case,
                      got=[got_restored[i] for i in idx[:2]] if idx != ['len'] else None,
                      note=f"after restoring MasterConfig, observations {idx[:8]} differ from the pristine ones")
    else:
        acc.guard('history_ok')
        if now != 'nw':
            acc.guard('probed_under_other_defaults')
        if not gs[2]:
            acc.guard('probed_with_cache_off')
        if gs[3]:
            acc.guard('probed_with_warm_cache')
    reset()


def run_unit(unit, tier):
    acc = Acc()
    ref = unit['ref']
    depth = DEPTH[tier]
    n = len(EVENTS)
    if unit['first'] is None:
        run_history(acc, (), ref)
        for a in range(n):
            run_history(acc, (a,), ref)
        # sanity: the in-process pristine battery equals the fresh-interpreter reference
        return acc.result()
    first = tuple(unit['first'])
    for L in range(2, depth + 1):
        for tail in itertools.product(range(n), repeat=L - 2):
            run_history(acc, first + tail, ref)
    return acc.result()


def replay(case):
    acc = Acc()
    ref = {f"{ns}{ew}": fresh_reference(ns, ew) for ns in 'ns' for ew in 'ew'}
    run_history(acc, tuple(NAMES.index(x) for x in case['history']), ref)
    return acc.viol


def guards(info):
    g = info['guards']
    out = []
    for name in ('history_ok', 'probed_under_other_defaults', 'probed_with_cache_off', 'probed_with_warm_cache'):
        if not g.get(name):
            out.append(f"never observed: {name}")
    if info['outcomes'] < 20:
        out.append(f"only {info['outcomes']} distinct global states")
    return out
