"""
C13 - configuration round-trips through text and has a single precedence order.

(a) explicit-state search over Config objects: from the empty Config, a transition sets one of the 16
    settings to one value of its domain; every state with <= 3 (quick) / <= 4 (thorough) settings is
    built through three routes (config text, from_dict, attribute assignment) and must survive
    decompile_to_text() -> Config() and from_dict() unchanged; unknown names (every single-character
    deletion / substitution of each valid name) must raise ValueError;
(b) setting x channel matrix: for every setting and every witness text on which it matters, all channels
    that exist for it (config string at creation, Config object, .config assignment before parse,
    parse() keyword, parse_tracts() keyword, MasterConfig) must give identical results, for PLSSDesc and Tract;
(c) conflicts: keyword > config string > MasterConfig for every ordered pair of distinct values, including the cross-setting
    conflicts inside the qq_depth / qq_depth_min / qq_depth_max family.
"""
import itertools
import warnings

from ..core import Acc, import_pytrs

ID = 'C13'
LEVEL = 'model_checking'
TECHNIQUE = ('explicit-state search over Config objects (settings assigned one at a time, <= 2/3 per state, 3 construction routes) + '
             'exhaustive setting x channel x witness matrix and all ordered value conflicts on the real PLSSDesc/Tract')
LEVEL_TEXT = ('Every Config with up to 3 (quick) / 4 (thorough) of the 16 settings over their full small domains is round-tripped; every '
              'setting is driven through every channel it has on several witness texts whose sensitivity to the setting is checked, '
              'and every ordered pair of conflicting values is resolved against the documented precedence. A mis-threaded variable '
              'shows on a single (setting, channel, witness) triple, all of which are enumerated.')
LEVEL_NOTE = ('Trusted: the witness table (sensitivity is measured, insensitive witnesses are reported and not counted). Settings that '
              'have no keyword channel (suppress_lot_divs and wait_to_parse for PLSSDesc.parse) are compared through the channels they have.')
RULE = (
    "state (a) = set of (setting, value) pairs; transition = assign one more setting; BFS with a seen-set on the canonical sorted "
    "tuple; (b)/(c) state = (object kind, setting, value(s), witness, channel). Every state is executed. Non-trivial = Config states "
    "with >= 1 setting; channel states whose witness is sensitive to the setting."
)
ASSUMPTIONS = [
    "Config states with more than 4 settings are not explored (settings are independent attributes)",
]

BOOLS = ['wait_to_parse', 'parse_qq', 'clean_qq', 'sec_colon_required', 'sec_colon_cautious', 'suppress_lot_divs', 'ocr_scrub',
         'segment', 'break_halves', 'sec_within']
DOMAIN = {b: [True, False] for b in BOOLS}
DOMAIN.update({'default_ns': ['n', 's'], 'default_ew': ['e', 'w'],
               'layout': ['TRS_desc', 'desc_STR', 'S_desc_TR', 'TR_desc_S', 'copy_all'],
               'qq_depth': [0, 1, 2, 3], 'qq_depth_min': [0, 1, 2, 3], 'qq_depth_max': [0, 1, 2, 3]})    # 0 = boundary value
ORDER = ['default_ns', 'default_ew', 'layout', 'wait_to_parse', 'parse_qq', 'clean_qq', 'sec_colon_required', 'sec_colon_cautious',
         'suppress_lot_divs', 'ocr_scrub', 'segment', 'qq_depth', 'qq_depth_min', 'qq_depth_max', 'break_halves', 'sec_within']
_p = None


def worker_init(tier):
    global _p
    _p = import_pytrs()
    warnings.simplefilter('ignore')


def cfg_token(s, v):
    if s in ('default_ns', 'default_ew', 'layout'):
        return str(v)
    if v is True:
        return s
    return f"{s}.{v}"


def cfg_text(state):
    return ','.join(cfg_token(s, v) for s, v in state)


# ------------------------------------------------------------------ (a)
def attrs(c):
    return {s: getattr(c, s) for s in ORDER}


def config_state(acc, state):
    """state: tuple of (setting, value) sorted by ORDER index"""
    key = 'cfg|' + cfg_text(state)
    case = {'k': 'config', 'state': [list(x) for x in state]}
    want = {s: None for s in ORDER}
    want.update(dict(state))
    try:
        C = _p.Config
        c1 = C(cfg_text(state))
        c2 = C.from_dict(dict(state))
        c3 = C()
        for s, v in state:
            setattr(c3, s, v)
        c4 = C.from_kwargs(**dict(state))
        res = {}
        for name, c in (('text', c1), ('from_dict', c2), ('setattr', c3), ('from_kwargs', c4)):
            res[name] = attrs(c)
            t = c.decompile_to_text()
            res[name + '>text>Config'] = attrs(C(t))
            res[name + '>vars>from_dict'] = attrs(C.from_dict({s: getattr(c, s) for s in ORDER}))
            res[name + '>Config(Config)'] = attrs(C(c))
            res[name + '>str'] = attrs(C(str(c)))
    except Exception as ex:  # noqa
        acc.case(key, 'EXC', nontrivial=bool(state))
        acc.violation('config_exception', f"C13:config_exception:{key}", case, got=f"{type(ex).__name__}: {ex}")
        return
    acc.case(key, cfg_text(state), nontrivial=bool(state))
    acc.states += 1
    for name, got in res.items():
        if got != want:
            diff = {s: (got[s], want[s]) for s in ORDER if got[s] != want[s]}
            acc.violation('config_roundtrip', f"C13:config_roundtrip:{name}:{sorted(diff)}", case, got=diff, note=name)
            return
    acc.guard('config_roundtrip_ok')


def config_states(maxk):
    """BFS from the empty Config; returns (states in BFS order, transitions)"""
    seen = {()}
    frontier = [()]
    trans = 0
    out = [()]
    for _ in range(maxk):
        nxt = []
        for st in frontier:
            used = {s for s, _ in st}
            for s in ORDER:
                if s in used:
                    continue
                for v in DOMAIN[s]:
                    trans += 1
                    new = tuple(sorted(st + ((s, v),), key=lambda x: ORDER.index(x[0])))
                    if new not in seen:
                        seen.add(new)
                        nxt.append(new)
                        out.append(new)
        frontier = nxt
    return out, trans


def unknown_names():
    names = set()
    for nm in ORDER:
        for i in range(len(nm)):
            names.add(nm[:i] + nm[i + 1:])
            names.add(nm[:i] + 'x' + nm[i + 1:])
            names.add(nm[:i] + nm[i].upper() + nm[i + 1:])
        names.add(nm + '_')
    # names that are not settings but exist as other attributes / methods / class constants of a Config object
    try:
        names |= {n for n in dir(_p.Config()) if n not in ORDER}
    except Exception:  # noqa
        pass
    names |= {'config_name', 'config_text', 'decompile_to_text', 'from_dict', '__class__', '__dict__', '_CONFIG_ATTRIBUTES'}
    names -= set(ORDER)
    names -= {'n', 's', 'e', 'w', 'N', 'S', 'E', 'W', ''}
    return sorted(names)


def unknown_case(acc, nm):
    for form in (nm, nm + '.True', nm + '=1', 'n,' + nm, nm + ',segment'):
        key = 'unknown|' + form
        case = {'k': 'unknown', 'form': form}
        try:
            _p.Config(form)
            res = 'accepted'
        except ValueError:
            res = 'ValueError'
        except Exception as ex:  # noqa
            res = type(ex).__name__
        acc.case(key, res)
        acc.states += 1
        acc.transitions += 1
        if res != 'ValueError':
            acc.violation('unknown_setting_not_rejected', f"C13:unknown_setting_not_rejected:{form}", case, got=res, exp='ValueError')
        else:
            acc.guard('unknown_rejected')


# ------------------------------------------------------------------ (b) / (c)
# setting -> list of (value, [witness texts]) for PLSSDesc
PW = {
    'default_ns': [('s', ['T154-R97W Sec 14: NE/4', 'NE/4 of Section 14, T154, R97W']), ('n', ['T154-R97W Sec 14: NE/4'])],
    'default_ew': [('e', ['T154N-R97 Sec 14: NE/4', 'Sec 14: NE/4, T154N R97']), ('w', ['T154N-R97 Sec 14: NE/4'])],
    'layout': [('copy_all', ['T154N-R97W Sec 14: NE/4', 'NE/4 of Sec 14, T154N-R97W']),
               ('desc_STR', ['T154N-R97W Sec 14: NE/4 of Sec 15, T155N-R97W']),
               ('TRS_desc', ['T154N-R97W Lots 1 - 3 of Sec 14: NE/4']),
               ('TR_desc_S', ['T154N-R97W Sec 14: NE/4 Sec 15'])],
    'parse_qq': [(True, ['T154N-R97W Sec 14: NE/4', 'T154N-R97W Sec 14: Lots 1 - 3']), (False, ['T154N-R97W Sec 14: NE/4'])],
    'clean_qq': [(True, ['T154N-R97W Sec 14: NE', 'T154N-R97W Sec 14: NE, Sec 15: SW NW']), (False, ['T154N-R97W Sec 14: NE'])],
    'sec_colon_required': [(True, ['T154N-R97W Sec 14: NE/4 Sec 15 NW/4', 'T154N-R97W Sec 14 NE/4']),
                           (False, ['T154N-R97W Sec 14: NE/4 Sec 15 NW/4'])],
    'sec_colon_cautious': [(True, ['T154N-R97W Sec 14: NE/4 Sec 15 NW/4', 'T154N-R97W Sec 14: NE/4, Lot 1 of Sec 15']),
                           (False, ['T154N-R97W Sec 14: NE/4 Sec 15 NW/4'])],
    'segment': [(True, ['T154N-R97W Sec 14: NE/4, NW/4 of Sec 15, T155N-R97W', 'NE/4 of Sec 1, T1N-R2W T3N-R4W Sec 5: ALL']),
                (False, ['T154N-R97W Sec 14: NE/4, NW/4 of Sec 15, T155N-R97W'])],
    'ocr_scrub': [(True, ['TI54N-R97W Sec 14: NE/4', 'T154N-RlO1W Sec 14: NE/4']), (False, ['TI54N-R97W Sec 14: NE/4'])],
    'sec_within': [(True, ['T154N-R97W That part of the NE/4 of Sec 14 lying north of the river',
                           'That part of the NE/4 of Sec 14, T154N-R97W, lying north']),
                   (False, ['T154N-R97W That part of the NE/4 of Sec 14 lying north of the river'])],
    'qq_depth_min': [(3, ['T154N-R97W Sec 14: NE/4NE/4', 'T154N-R97W Sec 14: N/2']), (1, ['T154N-R97W Sec 14: N/2NE/4']),
                     (2, ['T154N-R97W Sec 14: NE/4'])],
    'qq_depth_max': [(2, ['T154N-R97W Sec 14: N/2NE/4NE/4']), (1, ['T154N-R97W Sec 14: N/2NE/4NE/4']),
                     (3, ['T154N-R97W Sec 14: N/2N/2NE/4NE/4'])],
    'qq_depth': [(1, ['T154N-R97W Sec 14: N/2NE/4', 'T154N-R97W Sec 14: ALL']), (3, ['T154N-R97W Sec 14: NE/4']),
                 (2, ['T154N-R97W Sec 14: N/2NE/4NE/4'])],
    'break_halves': [(True, ['T154N-R97W Sec 14: N/2NE/4NE/4', 'T154N-R97W Sec 14: E/2W/2NE/4']),
                     (False, ['T154N-R97W Sec 14: N/2NE/4NE/4'])],
    'suppress_lot_divs': [(True, ['T154N-R97W Sec 14: N/2 of Lot 1', 'T154N-R97W Sec 14: S/2 of Lots 2 - 3']),
                          (False, ['T154N-R97W Sec 14: N/2 of Lot 1'])],
}
PLSS_KW = ['layout', 'default_ns', 'default_ew', 'parse_qq', 'clean_qq', 'sec_colon_cautious', 'sec_colon_required', 'segment',
           'ocr_scrub', 'sec_within', 'qq_depth_min', 'qq_depth_max', 'qq_depth', 'break_halves']
PARSE_TRACTS_KW = ['clean_qq', 'suppress_lot_divs', 'qq_depth_min', 'qq_depth_max', 'qq_depth', 'break_halves']
TW = {
    'clean_qq': [(True, ['NE', 'SW NW, Lot 1']), (False, ['NE'])],
    'suppress_lot_divs': [(True, ['N/2 of Lot 1', 'S/2 of Lots 2 - 3, NE/4']), (False, ['N/2 of Lot 1'])],
    'qq_depth_min': [(3, ['NE/4NE/4', 'N/2']), (1, ['N/2NE/4']), (2, ['NE/4'])],
    'qq_depth_max': [(2, ['N/2NE/4NE/4']), (1, ['N/2NE/4NE/4']), (3, ['N/2N/2NE/4NE/4'])],
    'qq_depth': [(1, ['N/2NE/4', 'ALL']), (3, ['NE/4']), (2, ['N/2NE/4NE/4'])],
    'break_halves': [(True, ['N/2NE/4NE/4', 'E/2W/2NE/4']), (False, ['N/2NE/4NE/4'])],
}


def snap(tl):
    return [(t.trs, t.desc, tuple(t.lots), tuple(t.qqs)) for t in tl]


def snap_t(t):
    return (t.pp_desc, tuple(t.lots), tuple(t.qqs))


def plss_channel(ch, text, s, v, base_cfg=None):
    """Run PLSSDesc with setting s=v through channel ch (parse_qq on unless s is parse_qq). base_cfg: extra config text."""
    P = _p
    pq = {} if s == 'parse_qq' else {'parse_qq': True}
    tok = cfg_token(s, v)
    cfg = tok if not base_cfg else base_cfg + ',' + tok
    if ch == 'config_str':
        return snap(P.PLSSDesc(text, config=cfg, **pq).tracts)
    if ch == 'config_obj':
        return snap(P.PLSSDesc(text, config=P.Config(cfg), **pq).tracts)
    if ch == 'config_from_kwargs':
        c = P.Config.from_kwargs(**{s: v})
        if base_cfg:
            c = P.Config(base_cfg + ',' + c.decompile_to_text())
        return snap(P.PLSSDesc(text, config=c, **pq).tracts)
    if ch == 'assign_config':
        d = P.PLSSDesc(text, wait_to_parse=True, **pq)
        d.config = cfg
        d.parse()
        return snap(d.tracts)
    if ch == 'parse_kw_commit':
        d = P.PLSSDesc(text, wait_to_parse=True, config=base_cfg, **pq)
        d.parse(**{s: v})
        return snap(d.tracts)
    if ch == 'parse_kw_nocommit':
        d = P.PLSSDesc(text, config=base_cfg, **pq)
        return snap(d.parse(commit=False, **{s: v}))
    if ch == 'init_kw':      # layout= and parse_qq= exist as init keywords
        return snap(P.PLSSDesc(text, config=base_cfg, **dict(pq, **{s: v})).tracts)
    if ch == 'parse_tracts_kw':
        d = P.PLSSDesc(text, config=base_cfg, parse_qq=True)
        d.parse_tracts(**{s: v})
        return snap(d.tracts)
    if ch == 'parse_tracts_config':
        d = P.PLSSDesc(text, config=base_cfg, parse_qq=True)
        d.parse_tracts(config=tok)
        return snap(d.tracts)
    if ch == 'master':
        MC = P.MasterConfig
        old = (MC.default_ns, MC.default_ew)
        try:
            setattr(MC, s, v)
            return snap(P.PLSSDesc(text, config=base_cfg, **pq).tracts)
        finally:
            MC.default_ns, MC.default_ew = old
    raise ValueError(ch)


def plss_channels(s):
    chs = ['config_str', 'config_obj', 'config_from_kwargs', 'assign_config']
    if s in PLSS_KW:
        chs += ['parse_kw_commit', 'parse_kw_nocommit']
    if s in ('layout', 'parse_qq'):
        chs.append('init_kw')
    if s in PARSE_TRACTS_KW:
        chs += ['parse_tracts_kw', 'parse_tracts_config']
    if s in ('default_ns', 'default_ew'):
        chs.append('master')
    return chs


def tract_channel(ch, text, s, v, base_cfg=None):
    P = _p
    tok = cfg_token(s, v)
    cfg = tok if not base_cfg else base_cfg + ',' + tok
    if ch == 'config_str':
        return snap_t(P.Tract(text, config=cfg, parse_qq=True))
    if ch == 'config_obj':
        return snap_t(P.Tract(text, config=P.Config(cfg), parse_qq=True))
    if ch == 'assign_config':
        t = P.Tract(text)
        t.config = cfg
        t.parse()
        return snap_t(t)
    if ch == 'parse_kw':
        t = P.Tract(text, config=base_cfg)
        t.parse(**{s: v})
        return snap_t(t)
    if ch == 'parse_kw_nocommit':
        t = P.Tract(text, config=base_cfg)
        r = t.parse(commit=False, **{s: v})
        t2 = P.Tract(text, config=cfg, parse_qq=True)
        return snap_t(t2) if r == t2.lots_qqs else ('nocommit result differs', tuple(r))
    if ch == 'tractlist_parse_tracts':
        t = P.Tract(text, config=base_cfg)
        P.TractList([t]).parse_tracts(**{s: v})
        return snap_t(t)
    if ch == 'from_twprgesec':
        return snap_t(P.Tract.from_twprgesec(text, 154, 97, 14, config=cfg, parse_qq=True))
    raise ValueError(ch)


TRACT_CHANNELS = ['config_str', 'config_obj', 'assign_config', 'parse_kw', 'parse_kw_nocommit', 'tractlist_parse_tracts',
                  'from_twprgesec']


def matrix_case(acc, kind, s, v, text):
    table = PW if kind == 'plss' else TW
    chans = plss_channels(s) if kind == 'plss' else TRACT_CHANNELS
    run = plss_channel if kind == 'plss' else tract_channel
    try:
        if kind == 'plss':
            base = snap(_p.PLSSDesc(text, parse_qq=(s != 'parse_qq')).tracts)
        else:
            base = snap_t(_p.Tract(text, parse_qq=True))
    except Exception as ex:  # noqa
        base = f"EXC {type(ex).__name__}"
    results = {}
    for ch in chans:
        key = f"{kind}|{s}={v}|{ch}|{text}"
        case = {'k': 'matrix', 'kind': kind, 'setting': s, 'value': v, 'text': text, 'channel': ch}
        try:
            results[ch] = run(ch, text, s, v)
        except Exception as ex:  # noqa
            results[ch] = f"EXC {type(ex).__name__}: {ex}"
    ref = results['config_str']
    # the value may equal the built-in default, in which case nothing can differ: sensitivity is about value v vs the other values
    others = [run('config_str', text, s, v2) for v2, _ in table[s] if v2 != v] if True else []
    sensitive = any(o != ref for o in others) or ref != base
    for ch in chans:
        key = f"{kind}|{s}={v}|{ch}|{text}"
        case = {'k': 'matrix', 'kind': kind, 'setting': s, 'value': v, 'text': text, 'channel': ch}
        acc.case(key, results[ch], nontrivial=sensitive)
        acc.states += 1
        acc.transitions += 1
        if isinstance(results[ch], str) and results[ch].startswith('EXC'):
            acc.violation('channel_exception', f"C13:channel_exception:{kind}:{s}:{ch}", case, got=results[ch])
        elif results[ch] != ref:
            acc.violation('channel_differs', f"C13:channel_differs:{kind}:{s}:{ch}", case, got=results[ch], exp=ref,
                          note=f"reference = config string at creation; default result = {base}")
    if sensitive:
        acc.guard(f"sensitive_{kind}_{s}")
    else:
        acc.extra[f"insensitive_witness_{kind}_{s}={v}"] += 1


def conflict_case(acc, kind, s, v_low, v_high, text):
    """config string says v_low, keyword says v_high -> must equal the pure v_high result; for directions also MasterConfig."""
    table = PW if kind == 'plss' else TW
    run = plss_channel if kind == 'plss' else tract_channel
    kw_ch = 'parse_kw_commit' if kind == 'plss' else 'parse_kw'
    key = f"conflict|{kind}|{s}|cfg={v_low}|kw={v_high}|{text}"
    case = {'k': 'conflict', 'kind': kind, 'setting': s, 'low': v_low, 'high': v_high, 'text': text}
    try:
        pure_high = run('config_str', text, s, v_high)
        pure_low = run('config_str', text, s, v_low)
        got = run(kw_ch, text, s, v_high, base_cfg=cfg_token(s, v_low))
        got_nc = run('parse_kw_nocommit', text, s, v_high, base_cfg=cfg_token(s, v_low)) if kind == 'plss' else got
        got_master = None
        if s in ('default_ns', 'default_ew') and kind == 'plss':
            MC = _p.MasterConfig
            old = (MC.default_ns, MC.default_ew)
            try:
                setattr(MC, s, v_low)
                got_master = run('config_str', text, s, v_high)       # config beats MasterConfig
                got_master_kw = run(kw_ch, text, s, v_high)          # keyword beats MasterConfig
            finally:
                MC.default_ns, MC.default_ew = old
    except Exception as ex:  # noqa
        acc.case(key, 'EXC')
        acc.violation('conflict_exception', f"C13:conflict_exception:{kind}:{s}", case, got=f"{type(ex).__name__}: {ex}")
        return
    acc.case(key, got, nontrivial=pure_high != pure_low)
    acc.states += 1
    acc.transitions += 1
    if got != pure_high or got_nc != pure_high:
        acc.violation('keyword_does_not_win', f"C13:keyword_does_not_win:{kind}:{s}", case, got=got if got != pure_high else got_nc,
                      exp=pure_high, note=f"config string {cfg_token(s, v_low)} vs keyword {s}={v_high!r}")
        return
    if got_master is not None and (got_master != pure_high or got_master_kw != pure_high):
        acc.violation('masterconfig_not_lowest', f"C13:masterconfig_not_lowest:{s}", case, got=[got_master, got_master_kw], exp=pure_high)
        return
    if pure_high != pure_low:
        acc.guard('conflict_resolved')


def family_conflict_case(acc, kind, cfg_setting, cfg_val, kw_setting, kw_val, text):
    """The depth settings interact: qq_depth overrides qq_depth_min/max *from the same source*, but a keyword must still win over
    the config string: parse(qq_depth_min=M) with config 'qq_depth.N' behaves like config 'qq_depth_min.M' alone, and
    parse(qq_depth=N) with config 'qq_depth_min.M' like config 'qq_depth.N' alone."""
    run = plss_channel if kind == 'plss' else tract_channel
    key = f"family|{kind}|cfg:{cfg_setting}={cfg_val}|kw:{kw_setting}={kw_val}|{text}"
    case = {'k': 'family', 'kind': kind, 'cfg': [cfg_setting, cfg_val], 'kw': [kw_setting, kw_val], 'text': text}
    try:
        pure_kw = run('config_str', text, kw_setting, kw_val)
        pure_cfg = run('config_str', text, cfg_setting, cfg_val)
        chans = ['parse_kw_commit', 'parse_kw_nocommit'] if kind == 'plss' else ['parse_kw', 'tractlist_parse_tracts']
        if kind == 'plss':
            chans.append('parse_tracts_kw')
        got = {ch: run(ch, text, kw_setting, kw_val, base_cfg=cfg_token(cfg_setting, cfg_val)) for ch in chans}
    except Exception as ex:  # noqa
        acc.case(key, 'EXC')
        acc.violation('conflict_exception', f"C13:conflict_exception:{kind}:{cfg_setting}/{kw_setting}", case, got=f"{type(ex).__name__}: {ex}")
        return
    acc.case(key, got, nontrivial=pure_kw != pure_cfg)
    acc.states += 1
    acc.transitions += 1
    for ch, g in got.items():
        if g != pure_kw:
            acc.violation('keyword_does_not_win', f"C13:keyword_does_not_win:{kind}:{cfg_setting}/{kw_setting}:{ch}", case, got=g, exp=pure_kw,
                          note=f"config string {cfg_token(cfg_setting, cfg_val)} vs keyword {kw_setting}={kw_val!r} through {ch}")
            return
    if pure_kw != pure_cfg:
        acc.guard('family_conflict_resolved')


def colon_family_case(acc, cfg_tok, kw, text):
    """sec_colon_required and sec_colon_cautious combine ('if sec_colon_required is True, sec_colon_cautious has no effect'):
    the combination of one given in config and the other as a keyword must behave like both given in the config string."""
    P = _p
    key = f"colonfamily|cfg:{cfg_tok}|kw:{sorted(kw.items())}|{text}"
    case = {'k': 'colonfamily', 'cfg': cfg_tok, 'kw': kw, 'text': text}
    eff = {'sec_colon_required': False, 'sec_colon_cautious': False}
    for tok in cfg_tok.split(','):
        if tok:
            eff[tok.split('.')[0]] = not tok.endswith('.False')
    eff.update(kw)
    both = ','.join(cfg_token(k, v) for k, v in eff.items())
    try:
        want = snap(P.PLSSDesc(text, config=both, parse_qq=True).tracts)
        d = P.PLSSDesc(text, config=cfg_tok or None, wait_to_parse=True, parse_qq=True)
        got = snap(d.parse(**kw))
        got_nc = snap(P.PLSSDesc(text, config=cfg_tok or None, parse_qq=True).parse(commit=False, **kw))
    except Exception as ex:  # noqa
        acc.case(key, 'EXC')
        acc.violation('conflict_exception', f"C13:conflict_exception:colonfamily", case, got=f"{type(ex).__name__}: {ex}")
        return
    acc.case(key, got)
    acc.states += 1
    acc.transitions += 1
    if got != want or got_nc != want:
        acc.violation('keyword_does_not_win', f"C13:keyword_does_not_win:colonfamily:{cfg_tok}:{sorted(kw.items())}", case,
                      got=got if got != want else got_nc, exp=want, note=f"expected the behaviour of config {both!r}")
    else:
        acc.guard('colon_family_ok')


COLON_TEXTS = ['T154N-R97W Sec 14: NE/4 Sec 15 NW/4', 'T154N-R97W Sec 14 NE/4', 'Sec 14 NE/4, Sec 15: ALL, T154N-R97W']


FAMILY_TEXTS = {'plss': ['T154N-R97W Sec 14: N/2NE/4', 'T154N-R97W Sec 14: N/2NE/4NE/4, Sec 15: ALL'],
                'tract': ['N/2NE/4', 'N/2NE/4NE/4, ALL']}


def config_obj_reuse_case(acc, cfg_text, kw, kind):
    """The caller's Config object is a value: after it was used by an object that was parsed with conflicting keywords its text
    is unchanged, and a second object built from it behaves like one built from the text."""
    P = _p
    key = f"cfgobj|{kind}|{cfg_text}|{sorted(kw.items())}"
    case = {'k': 'cfgobj', 'cfg': cfg_text, 'kw': kw, 'kind': kind}
    text_a, text_b = ('T154N-R97W Sec 14: N/2NE/4, NE', 'T154N-R97W Sec 15: W/2, SW') if kind == 'plss' else ('N/2NE/4, NE', 'W/2, SW')
    try:
        cfg = P.Config(cfg_text)
        before = cfg.decompile_to_text()
        if kind == 'plss':
            d1 = P.PLSSDesc(text_a, config=cfg, wait_to_parse=True)
            d1.parse(**kw)
            d1.parse(commit=False, **kw)
            d1.parse_tracts(**{k: v for k, v in kw.items() if k in PARSE_TRACTS_KW})
            after = cfg.decompile_to_text()
            got = snap(P.PLSSDesc(text_b, config=cfg).tracts)
            want = snap(P.PLSSDesc(text_b, config=cfg_text or None).tracts)
        else:
            t1 = P.Tract(text_a, config=cfg)
            t1.parse(**{k: v for k, v in kw.items() if k != 'parse_qq'})
            after = cfg.decompile_to_text()
            got = snap_t(P.Tract(text_b, config=cfg, parse_qq=True))
            want = snap_t(P.Tract(text_b, config=cfg_text or None, parse_qq=True))
    except Exception as ex:  # noqa
        acc.case(key, 'EXC')
        acc.violation('conflict_exception', f"C13:conflict_exception:cfgobj:{kind}", case, got=f"{type(ex).__name__}: {ex}")
        return
    acc.case(key, [after, got])
    acc.states += 1
    acc.transitions += 1
    if after != before:
        acc.violation('config_object_modified', f"C13:config_object_modified:{kind}:{cfg_text}", case, got=after, exp=before,
                      note='text of the caller\'s Config object after it was used by an object parsed with keywords')
    elif got != want:
        acc.violation('config_object_modified', f"C13:config_object_reuse_differs:{kind}:{cfg_text}", case, got=got, exp=want)
    else:
        acc.guard('cfgobj_ok')


CFGOBJ_TEXTS = ['', 'qq_depth_min.1', 'n,w', 'clean_qq.False,qq_depth.2', 'parse_qq']
CFGOBJ_KW = [{'parse_qq': True, 'qq_depth': 2, 'clean_qq': True}, {'qq_depth_min': 3, 'break_halves': True},
             {'parse_qq': True, 'qq_depth_max': 1}, {'clean_qq': True, 'parse_qq': True}]


WAIT_TEXTS = ['T154N-R97W Sec 14: NE/4', 'NE/4 of Section 14, T154N-R97W']


def wait_case(acc, text, how):
    """wait_to_parse has two channels in PLSSDesc: the config (string / object, at creation) and the init keyword.  Same effect
    through both; the keyword wins over the config string; unset means the MasterConfig default (parse at creation)."""
    P = _p
    key = f"wait|{how}|{text}"
    case = {'k': 'wait', 'how': how, 'text': text}
    routes = {
        # name: (constructor kwargs, waits?)
        'config_str': ({'config': 'wait_to_parse'}, True),
        'config_str_true': ({'config': 'wait_to_parse.True,parse_qq'}, True),
        'config_obj': ({'config': 'OBJ:wait_to_parse'}, True),
        'config_from_kwargs': ({'config': 'KW:wait_to_parse'}, True),
        'config_false': ({'config': 'wait_to_parse.False'}, False),
        'keyword': ({'wait_to_parse': True}, True),
        'keyword_false': ({'wait_to_parse': False}, False),
        'unset': ({}, False),
        'keyword_true_over_config_false': ({'config': 'wait_to_parse.False', 'wait_to_parse': True}, True),
        'keyword_false_over_config_true': ({'config': 'wait_to_parse', 'wait_to_parse': False}, False),
    }
    kw, waits = routes[how]
    kw = dict(kw)
    if str(kw.get('config', '')).startswith('OBJ:'):
        kw['config'] = P.Config(kw['config'][4:])
    elif str(kw.get('config', '')).startswith('KW:'):
        kw['config'] = P.Config.from_kwargs(wait_to_parse=True)
    try:
        d = P.PLSSDesc(text, **kw)
        got = (len(d.tracts) == 0, bool(d.wait_to_parse))
        d.parse()
        after = len(d.tracts)
    except Exception as ex:  # noqa
        acc.case(key, 'EXC')
        acc.violation('conflict_exception', f"C13:conflict_exception:wait:{how}", case, got=f"{type(ex).__name__}: {ex}")
        return
    acc.case(key, got)
    acc.states += 1
    acc.transitions += 1
    if got != (waits, waits) or after != 1:
        acc.violation('channel_differs', f"C13:channel_differs:plss:wait_to_parse:{how}", case, got=got, exp=(waits, waits),
                      note='(no tracts at creation, .wait_to_parse) through this route; the init keyword wait_to_parse=True is the reference')
    else:
        acc.guard('wait_ok')


WAIT_ROUTES = ['config_str', 'config_str_true', 'config_obj', 'config_from_kwargs', 'config_false', 'keyword', 'keyword_false', 'unset',
               'keyword_true_over_config_false', 'keyword_false_over_config_true']


# ------------------------------------------------------------------ driver
def units(tier):
    maxk = 3 if tier == 'quick' else 4
    us = []
    for s in ORDER:
        us.append({'k': 'config', 'first': s, 'maxk': maxk})
    us.append({'k': 'config', 'first': None, 'maxk': maxk})
    us.append({'k': 'unknown'})
    for s in PW:
        us.append({'k': 'matrix', 'kind': 'plss', 's': s})
    for s in TW:
        us.append({'k': 'matrix', 'kind': 'tract', 's': s})
    us.append({'k': 'family'})
    us.append({'k': 'wait'})
    us.append({'k': 'cfgobj'})
    return us


def space(tier):
    maxk = 3 if tier == 'quick' else 4
    states, trans = config_states(maxk)
    return {'bound': f"Config states with <= {maxk} settings ({len(states)} states); {len(unknown_names())} unknown names x 5 forms; "
                     f"{len(PW)} PLSSDesc settings and {len(TW)} Tract settings x all their channels x witnesses; all ordered value pairs",
            'transitions': trans, 'caps_hit': []}


def run_unit(unit, tier):
    acc = Acc()
    if unit['k'] == 'config':
        states, _ = config_states(unit['maxk'])
        for st in states:
            first = st[0][0] if st else None
            if first == unit['first']:
                config_state(acc, st)
    elif unit['k'] == 'unknown':
        for nm in unknown_names():
            unknown_case(acc, nm)
    elif unit['k'] == 'cfgobj':
        for cfg_text in CFGOBJ_TEXTS:
            for kw in CFGOBJ_KW:
                for kind in ('plss', 'tract'):
                    config_obj_reuse_case(acc, cfg_text, kw, kind)
    elif unit['k'] == 'wait':
        for text in WAIT_TEXTS:
            for how in WAIT_ROUTES:
                wait_case(acc, text, how)
    elif unit['k'] == 'family':
        for kind in ('plss', 'tract'):
            for text in FAMILY_TEXTS[kind]:
                for n in (1, 2, 3):
                    for m in (1, 2, 3):
                        family_conflict_case(acc, kind, 'qq_depth', n, 'qq_depth_min', m, text)
                        family_conflict_case(acc, kind, 'qq_depth', n, 'qq_depth_max', m, text)
                        family_conflict_case(acc, kind, 'qq_depth_min', m, 'qq_depth', n, text)
                        family_conflict_case(acc, kind, 'qq_depth_max', m, 'qq_depth', n, text)
        for text in COLON_TEXTS:
            for cfg_tok in ('', 'sec_colon_required', 'sec_colon_cautious', 'sec_colon_required,sec_colon_cautious',
                            'sec_colon_required.False,sec_colon_cautious'):
                for kw in ({'sec_colon_required': True}, {'sec_colon_required': False}, {'sec_colon_cautious': True},
                           {'sec_colon_cautious': False}, {'sec_colon_required': True, 'sec_colon_cautious': True},
                           {'sec_colon_required': False, 'sec_colon_cautious': True}):
                    colon_family_case(acc, cfg_tok, kw, text)
    else:
        kind, s = unit['kind'], unit['s']
        table = PW if kind == 'plss' else TW
        for v, texts in table[s]:
            for text in texts:
                matrix_case(acc, kind, s, v, text)
        if s in PLSS_KW or kind == 'tract':
            vals = [v for v, _ in table[s]]
            alltexts = sorted({t for _, ts in table[s] for t in ts})
            for lo, hi in itertools.permutations(vals, 2):
                for text in alltexts:
                    conflict_case(acc, kind, s, lo, hi, text)
    return acc.result()


def replay(case):
    acc = Acc()
    if case['k'] == 'config':
        config_state(acc, tuple(tuple(x) for x in case['state']))
    elif case['k'] == 'unknown':
        sub = Acc()
        for nm in unknown_names():
            unknown_case(sub, nm)
        return [v for v in sub.viol if v['case']['form'] == case['form']]
    elif case['k'] == 'matrix':
        matrix_case(acc, case['kind'], case['setting'], case['value'], case['text'])
        return [v for v in acc.viol if v['case']['channel'] == case['channel']]
    elif case['k'] == 'cfgobj':
        config_obj_reuse_case(acc, case['cfg'], case['kw'], case['kind'])
    elif case['k'] == 'wait':
        wait_case(acc, case['text'], case['how'])
    elif case['k'] == 'colonfamily':
        colon_family_case(acc, case['cfg'], case['kw'], case['text'])
    elif case['k'] == 'family':
        family_conflict_case(acc, case['kind'], case['cfg'][0], case['cfg'][1], case['kw'][0], case['kw'][1], case['text'])
    else:
        conflict_case(acc, case['kind'], case['setting'], case['low'], case['high'], case['text'])
    return acc.viol


def guards(info):
    g = info['guards']
    out = []
    for s in PW:
        if not g.get(f"sensitive_plss_{s}"):
            out.append(f"no sensitive witness for PLSSDesc setting {s}")
    for s in TW:
        if not g.get(f"sensitive_tract_{s}"):
            out.append(f"no sensitive witness for Tract setting {s}")
    for name in ('config_roundtrip_ok', 'unknown_rejected', 'conflict_resolved', 'family_conflict_resolved', 'colon_family_ok'):
        if not g.get(name):
            out.append(f"never observed: {name}")
    return out
