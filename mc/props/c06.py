"""
C06 - tract parsing is compositional: lots, divisions, acreages and aliquots.

All sequences (length 2..3, thorough 4) over 28 element kinds x 5 separators x 6 configurations on
the real Tract parser.  Each element is generated from an abstract spec, so lots / divisions /
acreages have computed expectations; aliquots use the differential oracle "what the element yields
on its own under the same configuration" (the tiling itself is C02's subject).
"""
import itertools
import warnings

from ..core import Acc, import_pytrs

ID = 'C06'
LEVEL = 'model_checking'
TECHNIQUE = ('bounded exhaustive enumeration of element sequences x separators x configurations on the real Tract parser; '
             'spec-derived expectations for lots/divisions/acreages, per-element differential oracle for aliquots')
LEVEL_TEXT = ('Every sequence of 2-3 (thorough 4) elements from 28 kinds (single lot, range, and-list, () and [] acreage, second acreage '
              'for the same lot, divisions with and without "of", division over a range whose through-word is followed by "Lot", '
              'division that must stop at the second "Lot" word, three aliquot chains, ALL, repeated lot) x 9 separators (comma / semicolon / line break, with and without blanks) '
              ' x 6 configurations. Interference between neighbouring elements (fusion across a separator, lost ALL, acreage '
              'attributed to the wrong lot, wrong duplicate warning) needs only 2 elements.')
LEVEL_NOTE = ('Trusted: the element specs in mc/props/c06.py. When one lot carries two different acreages either may be kept. '
              '" and " is not an element separator of this property.')
RULE = (
    "state = (element sequence, separator, configuration); transitions append one element; every state of length >= 2 is executed "
    "together with its elements on their own. Non-trivial = every such state (distinct text x configuration)."
)
ASSUMPTIONS = [
    "elements outside the 16 kinds and sequences longer than 4 are not explored",
]

# (text, lots [(number, division or None)], acreages {number: str}, is_aliquot)
ELEMS = [
    ('Lot 1', [(1, None)], {}, False),
    ('Lots 2 - 4', [(2, None), (3, None), (4, None)], {}, False),
    ('Lot 5(38.12)', [(5, None)], {5: '38.12'}, False),
    ('Lot 6 [40.00]', [(6, None)], {6: '40.00'}, False),
    ('Lot 5(39.00)', [(5, None)], {5: '39.00'}, False),
    ('N/2 of Lot 7', [(7, 'N2')], {}, False),
    ('S/2 of Lots 8 and 9', [(8, 'S2'), (9, 'S2')], {}, False),
    ('N/2 Lot 11', [(11, 'N2')], {}, False),
    ('E/2 of Lot 12 - Lot 14', [(12, 'E2'), (13, 'E2'), (14, 'E2')], {}, False),
    ('W/2 of Lot 15 and Lot 16', [(15, 'W2'), (16, None)], {}, False),
    ('Lots 17, 19', [(17, None), (19, None)], {}, False),
    ('Lots 98 - 101', [(98, None), (99, None), (100, None), (101, None)], {}, False),    # ends with different digit counts
    ('Lots 31(39.80) - 33', [(31, None), (32, None), (33, None)], {31: '39.80'}, False),     # acreage on the first lot of a range
    ('Lot 41 [39.80] thru Lot 44 [41.25]', [(41, None), (42, None), (43, None), (44, None)], {41: '39.80', 44: '41.25'}, False),
    ('Lots 28 thru 30', [(28, None), (29, None), (30, None)], {}, False),
    ('Lot 1', [(1, None)], {}, False),           # repeated lot (same text as element 0, kept as its own kind)
    ('Lots 20(1.10), 21(2.20)', [(20, None), (21, None)], {20: '1.10', 21: '2.20'}, False),
    ('L22', [(22, None)], {}, False),
    ('Lot 24(40)', [(24, None)], {24: '40'}, False),
    ('Lots 25 [38], 26', [(25, None), (26, None)], {25: '38'}, False),
    ('N/2NE/4 of Lot 23', [(23, 'N2NE')], {}, False),
    ('NE/4', [], {}, True),
    ('S/2NW/4', [], {}, True),
    ('W/2SE/4', [], {}, True),
    ('ALL', [], {}, True),
    ('N/2', [], {}, True),            # an element that ends in a half (a bare quarter on the *next line* is not 'directly after' it)
    # bare two-letter quarters: aliquots under clean_qq only (alone and in a list alike)
    ('NE', [], {}, True),
    ('SW', [], {}, True),
]
SEPS = [', ', '; ', '\n', ',', ';', ' \n', '\n ', ',\n', ';\r\n']
CFGS = [None, 'suppress_lot_divs', 'clean_qq', 'qq_depth.1', 'qq_depth_min.3', 'break_halves',
        # the setting given as a keyword of parse() on an object whose stored configuration says the opposite
        'kw:suppress_off_over_cfg_on', 'kw:suppress_on_over_cfg_off']


def suppressed(cfg):
    return cfg in ('suppress_lot_divs', 'kw:suppress_on_over_cfg_off')


def mk(text, cfg):
    if cfg == 'kw:suppress_off_over_cfg_on':
        t = _p.Tract(text, config='suppress_lot_divs')
        t.parse(suppress_lot_divs=False)
        return t
    if cfg == 'kw:suppress_on_over_cfg_off':
        t = _p.Tract(text, config='suppress_lot_divs.False')
        t.parse(suppress_lot_divs=True)
        return t
    return _p.Tract(text, parse_qq=True, config=cfg)
_p = None
_alone = {}


def worker_init(tier):
    global _p
    _p = import_pytrs()
    warnings.simplefilter('ignore')


def alone(ei, cfg):
    k = (ei, cfg)
    if k not in _alone:
        t = mk(ELEMS[ei][0], cfg)
        _alone[k] = (list(t.lots), list(t.qqs), list(t.aliquots_whole))
    return _alone[k]


def exp_lots(seq, cfg):
    out = []
    for ei in seq:
        for n, div in ELEMS[ei][1]:
            if div and not suppressed(cfg):
                out.append(f"{div} of L{n}")
            else:
                out.append(f"L{n}")
    return out


def units(tier):
    us = []
    n = len(ELEMS)
    for a in range(n):
        us.append({'first': [a], 'L': 2})
        for b in range(n):
            us.append({'first': [a, b], 'L': 3})
    if tier == 'thorough':
        for a in range(n):
            for b in range(n):
                us.append({'first': [a, b], 'L': 4})
    return us


def space(tier):
    return {'bound': f"sequences of length 2..{3 if tier == 'quick' else 4} over {len(ELEMS)} element kinds x {len(SEPS)} separators "
                     f"x {len(CFGS)} configurations", 'caps_hit': []}


def judge(acc, seq, si, cfg):
    sep = SEPS[si]
    text = sep.join(ELEMS[e][0] for e in seq)
    key = f"{cfg}|{text}"
    case = {'seq': list(seq), 'sep': si, 'cfg': cfg, 'text': text}
    try:
        t = mk(text, cfg)
        lots, qqs, whole = list(t.lots), list(t.qqs), list(t.aliquots_whole)
        acres = dict(t.lot_acres)
        wf = list(t.w_flags)
        lq, il = t.lots_qqs, t.ilots
        e_lots_alone = [x for e in seq for x in alone(e, cfg)[0]]
        e_qqs = [x for e in seq for x in alone(e, cfg)[1]]
        e_whole = [x for e in seq for x in alone(e, cfg)[2]]
    except Exception as ex:  # noqa
        acc.case(key, 'EXC')
        acc.violation('exception', f"C06:exception:{key}", case, got=f"{type(ex).__name__}: {ex}")
        return
    acc.case(key, [lots, qqs, sorted(acres.items()), sorted(wf)])
    acc.states += 1
    acc.transitions += 1
    e_lots = exp_lots(seq, cfg)
    if e_lots_alone != e_lots:
        acc.violation('element_alone_lots', f"C06:element_alone_lots:{cfg}:{[ELEMS[e][0] for e in seq]}", case,
                      got=e_lots_alone, exp=e_lots, note='an element on its own does not yield its specified lots')
        return
    for e in seq:
        # a lot element (incl. an aliquot that divides a lot) yields no aliquots of its own: the dividing aliquot belongs to the lot
        if not ELEMS[e][3] and (alone(e, cfg)[1] or alone(e, cfg)[2]):
            acc.violation('element_alone_qqs', f"C06:element_alone_qqs:{cfg}:{ELEMS[e][0]}", case,
                          got=[alone(e, cfg)[1], alone(e, cfg)[2]], exp=[[], []],
                          note='a lot element on its own is also reported as a stand-alone aliquot')
            return
    if lots != e_lots:
        acc.violation('lots_not_compositional', f"C06:lots_not_compositional:{key}", case, got=lots, exp=e_lots)
        return
    if qqs != e_qqs:
        acc.violation('qqs_not_compositional', f"C06:qqs_not_compositional:{key}", case, got=qqs, exp=e_qqs)
        return
    if whole != e_whole:
        acc.violation('aliquots_whole_not_compositional', f"C06:aliquots_whole_not_compositional:{key}", case, got=whole, exp=e_whole)
        return
    if lq != lots + qqs:
        acc.violation('lots_qqs', f"C06:lots_qqs:{key}", case, got=lq, exp=lots + qqs)
        return
    e_il = [n for e in seq for n, _ in ELEMS[e][1]]
    if il != e_il:
        acc.violation('ilots', f"C06:ilots:{key}", case, got=il, exp=e_il)
        return
    # acreages: every stated acreage belongs to its lot; two different ones for a lot: either
    stated = {}
    for e in seq:
        for n, a in ELEMS[e][2].items():
            stated.setdefault(f"L{n}", []).append(a)
    if set(acres) != set(stated) or any(acres[k] not in v for k, v in stated.items()):
        acc.violation('lot_acres', f"C06:lot_acres:{key}", case, got=acres, exp=stated)
        return
    dup_lot = len(set(lots)) < len(lots)
    dup_qq = len(set(qqs)) < len(qqs)
    got_dup_lot = any(f.startswith('dup_lot<') for f in wf)
    got_dup_qq = any(f.startswith('dup_qq<') for f in wf)
    if got_dup_lot != dup_lot:
        acc.violation('dup_lot_flag', f"C06:dup_lot_flag:{key}", case, got=wf, exp=f"dup_lot {'present' if dup_lot else 'absent'}")
        return
    if got_dup_qq != dup_qq:
        acc.violation('dup_qq_flag', f"C06:dup_qq_flag:{key}", case, got=wf, exp=f"dup_qq {'present' if dup_qq else 'absent'}")
        return
    if dup_lot:
        acc.guard('dup_lot_seen')
    if dup_qq:
        acc.guard('dup_qq_seen')
    if len(stated) and any(len(v) > 1 for v in stated.values()):
        acc.guard('two_acreages_one_lot')
    if lots and qqs:
        acc.guard('lots_and_qqs')


def run_unit(unit, tier):
    acc = Acc()
    first = tuple(unit['first'])
    for tail in itertools.product(range(len(ELEMS)), repeat=unit['L'] - len(first)):
        seq = first + tail
        for si in range(len(SEPS)):
            for cfg in CFGS:
                judge(acc, seq, si, cfg)
    return acc.result()


def replay(case):
    acc = Acc()
    judge(acc, tuple(case['seq']), case['sep'], case['cfg'])
    return acc.viol


def guards(info):
    g = info['guards']
    out = []
    for name in ('dup_lot_seen', 'dup_qq_seen', 'two_acreages_one_lot', 'lots_and_qqs'):
        if not g.get(name):
            out.append(f"never observed: {name}")
    return out
