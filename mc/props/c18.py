"""
C18 - filter / group operations partition the list; containers never drop silently.

E-seq style exhaustive enumeration on live container objects:
 (a) every list up to a length bound over a pool of tracts / TRS values (repeated instances,
     equal TRS in distinct instances, error / undefined TRS, parsed and unparsed) x every
     filter / filter_errors / filter_duplicates / group_by / group_by_nested / unpack_group
     invocation from a finite menu, judged against plain-Python reference models
     (identity and order);
 (b) every iterable up to length 3 over 10 element kinds x every construction path
     (constructor, extend, +=, +, from_multiple with nesting shapes, append, insert,
     __setitem__) for both list types: either TypeError or every leaf present, in order.
"""
import itertools
import warnings

from ..core import Acc, import_pytrs
from .c17 import ref_sort

ID = 'C18'
LEVEL = 'model_checking'
TECHNIQUE = ('bounded exhaustive enumeration of lists x container operations and of iterables x construction paths on live '
             'TractList/TRSList objects, compared by identity/order with list/dict reference models')
LEVEL_TEXT = ('All lists up to length 4 (quick) / 5 (thorough) over a 7-element pool x the full menu of filter, filter_errors (16 flag '
              'combinations), filter_duplicates (5 methods), group_by / group_by_nested (attribute lists of length 1..3, into, '
              'sort key) and unpack_group, each with drop on/off, and all iterables up to length 3 over 10 element kinds x 8 '
              'construction paths x both list types. Partition/ordering bugs and silent drops need <= 3 elements to show.')
LEVEL_NOTE = ('Trusted: the list/dict reference models in mc/props/c18.py and c17.ref_sort. For TRSList, duplicate method '
              '"instance" is read as equality of TRS values (TRS defines __eq__/__hash__ on .trs). A nested container given as an '
              '*element* to the constructor/extend may either raise TypeError or be flattened completely.')
RULE = (
    "state = (list kind, list of pool indexes, operation, arguments); transition = append an element / choose an operation; "
    "each complete state runs the real operation on a fresh container built from shared pool objects and compares returned and "
    "remaining contents by id() and order with the reference. Construction: state = (list kind, path, iterable shape, element "
    "kinds). Non-trivial = lists of length >= 1 (operations) / iterables of length >= 1 (construction)."
)
ASSUMPTIONS = [
    "lists longer than the bound are not explored; predicates come from a menu of 5",
    "grouping attributes are hashable Tract/TRS attributes (twprge, sec, twp, rge, trs, parse_complete)",
]

LMAX = {'quick': 4, 'thorough': 5}
_p = None
TPOOL = []      # tracts
DPOOL = []
SPOOL = ['154n97w14', '154n97w14', '154n97w15', 'XXXzXXXzXX', '___z___z__', '___z97w01', '1s2e14']


def worker_init(tier):
    global _p, TPOOL
    _p = import_pytrs()
    warnings.simplefilter('ignore')
    T = _p.Tract
    TPOOL = [
        T('NE/4', trs='154n97w14', parse_qq=True),
        T('Northeast Quarter', trs='154n97w14', parse_qq=True),
        T('W/2', trs='154n97w15'),
        T('x', trs='XXXzXXXzXX'),
        T('y'),
        T('z', trs='___z97w01'),
        T('NE/4', trs='1s2e14', parse_qq=True),
    ]
    # pool for filter_duplicates only: same Twp/Rge/Sec, the same *set* of lots / aliquots written in a different order, with a
    # lot or an aliquot named twice, and with overlapping aliquots (the lists differ, the sets do not)
    global DPOOL
    DPOOL = [
        T('Lots 1 - 3, S/2NE/4', trs='154n97w14', parse_qq=True),
        T('Lot 3, S/2NE/4, Lots 1 - 3', trs='154n97w14', parse_qq=True),
        T('NE/4', trs='154n97w14', parse_qq=True),
        T('NE/4, NE/4NE/4', trs='154n97w14', parse_qq=True),
        T('NE/4, NE/4NE/4', trs='154n97w15', parse_qq=True),
        T('S/2NE/4, Lots 3, 2, 1', trs='154n97w14', parse_qq=True),
    ]


PRED = {
    'even_sec': lambda t: (t.sec_num or 0) % 2 == 0,
    't154': lambda t: t.twp_num == 154,
    'all': lambda t: True,
    'none': lambda t: False,
    'truthy_str': lambda t: t.twp_ns,     # bool-like, not bool
}


def ids(xs):
    return [id(x) for x in xs]


def obs_of(got, tl):
    return ','.join(x.trs for x in got) + '/' + ','.join(x.trs for x in tl)


def mk(kind, idx):
    """-> (container, list of the element objects in order)"""
    if kind == 'tract':
        xs = [TPOOL[i] for i in idx]
        return _p.TractList(xs), xs
    if kind == 'dtract':
        xs = [DPOOL[i] for i in idx]
        return _p.TractList(xs), xs
    pool = [_p.TRS(s) for s in SPOOL]
    xs = [pool[i] for i in idx]
    return _p.TRSList(xs), xs


def viol(acc, cls, ck, case, got=None, exp=None, note=''):
    acc.violation(cls, f"C18:{cls}:{ck}", case, got=got, exp=exp, note=note)


def op_filter(acc, kind, idx, via):
    for pn, p in PRED.items():
        for drop in (False, True):
            ck = f"{kind}|{idx}|filter|{pn}|{drop}|{via}"
            case = {'op': 'filter', 'kind': kind, 'idx': list(idx), 'pred': pn, 'drop': drop, 'via': via}
            tl, xs = mk(kind, idx)
            try:
                if via == 'plss':
                    d = _p.PLSSDesc('x', wait_to_parse=True)
                    d.tracts = tl
                    got = d.filter(p, drop=drop)
                    tl = d.tracts
                else:
                    got = tl.filter(p, drop=drop)
            except Exception as e:  # noqa
                acc.case(ck, 'EXC', nontrivial=bool(idx))
                viol(acc, 'exception', ck, case, got=f"{type(e).__name__}: {e}")
                continue
            sel = [x for x in xs if p(x)]
            rem = [x for x in xs if not p(x)] if drop else xs
            acc.case(ck, obs_of(got, tl), nontrivial=bool(idx))
            acc.states += 1
            acc.transitions += 1
            if ids(got) != ids(sel) or ids(tl) != ids(rem) or type(got) is not type(tl):
                viol(acc, 'filter', ck, case, got=[[x.trs for x in got], [x.trs for x in tl]],
                     exp=[[x.trs for x in sel], [x.trs for x in rem]])
            elif sel and rem is not xs and rem:
                acc.guard('filter_split')


def crit_errors(t, twp, rge, sec, undef):
    err = ((twp and t.twp_num is None and not t.twp_undef)
           or (rge and t.rge_num is None and not t.rge_undef)
           or (sec and t.sec_num is None and not t.sec_undef))
    und = undef and ((twp and t.twp_undef) or (rge and t.rge_undef) or (sec and t.sec_undef))
    return bool(err or und)


def op_filter_errors(acc, kind, idx):
    for twp, rge, sec, undef in itertools.product((True, False), repeat=4):
        for drop in (False, True):
            ck = f"{kind}|{idx}|filter_errors|{twp}{rge}{sec}{undef}|{drop}"
            case = {'op': 'filter_errors', 'kind': kind, 'idx': list(idx),
                    'flags': [twp, rge, sec, undef], 'drop': drop}
            tl, xs = mk(kind, idx)
            try:
                got = tl.filter_errors(twp, rge, sec, undef, drop)
            except Exception as e:  # noqa
                acc.case(ck, 'EXC', nontrivial=bool(idx))
                viol(acc, 'exception', ck, case, got=f"{type(e).__name__}: {e}")
                continue
            sel = [x for x in xs if crit_errors(x, twp, rge, sec, undef)]
            rem = [x for x in xs if not crit_errors(x, twp, rge, sec, undef)] if drop else xs
            acc.case(ck, obs_of(got, tl), nontrivial=bool(idx))
            acc.states += 1
            acc.transitions += 1
            if ids(got) != ids(sel) or ids(tl) != ids(rem):
                viol(acc, 'filter_errors', ck, case, got=[[x.trs for x in got], [x.trs for x in tl]],
                     exp=[[x.trs for x in sel], [x.trs for x in rem]])
            elif sel and len(sel) < len(xs):
                acc.guard('filter_errors_split')


def ref_dups(kind, xs, method):
    """-> positions of the elements that are duplicates of an earlier one."""
    m = method
    if kind == 'dtract':
        kind = 'tract'
    if m == 'default':
        m = 'instance' if kind == 'tract' else 'trs'
    seen_i = set()
    seen_k = set()
    pos = []
    for n, x in enumerate(xs):
        dup = False
        ident = id(x) if kind == 'tract' else x.trs     # TRS: value equality
        if ident in seen_i:
            dup = True
        seen_i.add(ident)
        key = None
        if m == 'lots_qqs' and kind == 'tract' and x.parse_complete:
            key = ('lq', x.trs, tuple(sorted(set(x.lots_qqs))))
        if m == 'desc':
            key = ('d', x.trs, x.pp_desc.strip()) if kind == 'tract' else ('d', x.trs)
        if m == 'trs':
            key = ('t', x.trs)
        if key is not None:
            if key in seen_k:
                dup = True
            seen_k.add(key)
        if dup:
            pos.append(n)
    return pos


def op_radd(acc, kind, idx):
    """plain_list + container: either TypeError (the reflected operation is not offered) or every element supplied, left operand
    first - never a re-ordered result."""
    for cut in range(len(idx) + 1):
        left_idx, right_idx = idx[:cut], idx[cut:]
        ck = f"{kind}|{idx}|radd|{cut}"
        case = {'op': 'radd', 'kind': kind, 'idx': list(idx), 'cut': cut}
        _, left = mk(kind, left_idx)
        tl, right = mk(kind, right_idx)
        try:
            got = list(left) + tl
            res = [x.trs for x in got]
        except TypeError:
            res = 'TypeError'
        except Exception as e:  # noqa
            acc.case(ck, 'EXC')
            viol(acc, 'exception', ck, case, got=f"{type(e).__name__}: {e}")
            continue
        acc.case(ck, res)
        acc.states += 1
        acc.transitions += 1
        want = [x.trs for x in left] + [x.trs for x in right]
        if res != 'TypeError' and res != want:
            viol(acc, 'radd_order', ck, case, got=res, exp=want)
        else:
            acc.guard('radd_checked')


def op_dups(acc, kind, idx):
    for method in ('instance', 'lots_qqs', 'desc', 'trs', 'default'):
        for drop in (False, True):
            ck = f"{kind}|{idx}|filter_duplicates|{method}|{drop}"
            case = {'op': 'filter_duplicates', 'kind': kind, 'idx': list(idx), 'method': method, 'drop': drop}
            tl, xs = mk(kind, idx)
            try:
                got = tl.filter_duplicates(method, drop)
            except Exception as e:  # noqa
                acc.case(ck, 'EXC', nontrivial=bool(idx))
                viol(acc, 'exception', ck, case, got=f"{type(e).__name__}: {e}")
                continue
            pos = ref_dups(kind, xs, method)
            sel = [xs[n] for n in pos]
            rem = [x for n, x in enumerate(xs) if n not in pos] if drop else xs
            acc.case(ck, obs_of(got, tl), nontrivial=bool(idx))
            acc.states += 1
            acc.transitions += 1
            if ids(got) != ids(sel) or ids(tl) != ids(rem):
                viol(acc, 'filter_duplicates', ck, case, got=[[x.trs for x in got], [x.trs for x in tl]],
                     exp=[[x.trs for x in sel], [x.trs for x in rem]])
            elif sel:
                acc.guard('dups_found')


ATTR_LISTS = ['twprge', ['sec'], ['twprge', 'sec'], ['twp', 'rge', 'sec'], ['trs'], ['sec', 'twp']]
TRACT_ONLY_ATTR_LISTS = [['parse_complete', 'twprge'], 'desc']


def ref_group(xs, attrs, nested):
    al = attrs if isinstance(attrs, list) else [attrs]
    if not nested:
        d = {}
        for x in xs:
            k = tuple(getattr(x, a) for a in al)
            if len(al) == 1:
                k = k[0]
            d.setdefault(k, []).append(x)
        return d
    d = {}
    for x in xs:
        cur = d
        for a in al[:-1]:
            cur = cur.setdefault(getattr(x, a), {})
        cur.setdefault(getattr(x, al[-1]), []).append(x)
    return d


def same_group(got, want, cls_):
    """Compare a (possibly nested) dict of containers with a dict of lists by identity/order."""
    if isinstance(want, dict):
        if not isinstance(got, dict) or list(got.keys()) != list(want.keys()):
            # key order: insertion order of first occurrence is what a reader expects, but only the key set is demanded
            if not isinstance(got, dict) or set(got.keys()) != set(want.keys()):
                return False
        return all(same_group(got[k], want[k], cls_) for k in want)
    return isinstance(got, cls_) and ids(got) == ids(want)


def sorted_groups(d, key):
    if isinstance(d, dict):
        return {k: sorted_groups(v, key) for k, v in d.items()}
    return ref_sort(d, key)


def leaves(d):
    if isinstance(d, dict):
        out = []
        for v in d.values():
            out.extend(leaves(v))
        return out
    return list(d)


def op_group(acc, kind, idx, idx2=None):
    als = ATTR_LISTS + (TRACT_ONLY_ATTR_LISTS if kind == 'tract' else [])
    cls_ = _p.TractList if kind == 'tract' else _p.TRSList
    for attrs in als:
        for nested in (False, True):
            for sk in (None, 's.rev,t.ns'):
                name = 'group_by_nested' if nested else 'group_by'
                ck = f"{kind}|{idx}|{name}|{attrs}|{sk}|{idx2}"
                case = {'op': name, 'kind': kind, 'idx': list(idx), 'attrs': attrs, 'sort_key': sk,
                        'into_idx': list(idx2) if idx2 is not None else None}
                tl, xs = mk(kind, idx)
                try:
                    into = None
                    allx = xs
                    if idx2 is not None:
                        tl0, xs0 = mk(kind, idx2)
                        into = getattr(tl0, name)(attrs)
                        allx = xs0 + xs
                    got = getattr(tl, name)(attrs, into=into, sort_key=sk)
                    un = cls_.unpack_group(got)
                except Exception as e:  # noqa
                    acc.case(ck, 'EXC', nontrivial=bool(idx))
                    viol(acc, 'exception', ck, case, got=f"{type(e).__name__}: {e}")
                    continue
                want = ref_group(allx, attrs, nested)
                if sk:
                    if kind == 'tract':
                        # 'i' is not in the key, so no uid needed
                        want = sorted_groups(want, sk)
                    else:
                        want = sorted_groups(want, sk)
                acc.case(ck, repr(sorted(map(repr, got.keys()))) + '|' + ','.join(x.trs for x in un), nontrivial=bool(idx))
                acc.states += 1
                acc.transitions += 1
                if into is not None and got is not into:
                    viol(acc, 'group_into_not_reused', ck, case)
                    continue
                if ids(tl) != ids(xs):
                    viol(acc, 'group_mutated_source', ck, case)
                    continue
                if not same_group(got, want, cls_):
                    viol(acc, name, ck, case, got=repr(got)[:300], exp=repr(
                        {k: ([x.trs for x in v] if not isinstance(v, dict) else '...') for k, v in want.items()})[:300])
                    continue
                if sorted(ids(un)) != sorted(ids(allx)) or not isinstance(un, cls_):
                    viol(acc, 'unpack_group', ck, case, got=[x.trs for x in un], exp=[x.trs for x in leaves(want)])
                    continue
                if len(want) > 1:
                    acc.guard('several_groups')
                if nested and isinstance(attrs, list) and len(attrs) > 1 and xs:
                    acc.guard('nested_multi')


# ------------------------------------------------------------------ construction
KINDS = ['tract', 'tract2', 'trs', 'str', 'garbage_str', 'int', 'none', 'plssdesc', 'tractlist', 'nested_list']


def make_elem(k):
    T = _p.Tract
    if k == 'tract':
        return T('NE/4', trs='154n97w14')
    if k == 'tract2':
        return T('x', trs='1s2e05')
    if k == 'trs':
        return _p.TRS('154n97w15')
    if k == 'str':
        return '2n3w36'
    if k == 'garbage_str':
        return 'garbage'
    if k == 'int':
        return 7
    if k == 'none':
        return None
    if k == 'plssdesc':
        return _p.PLSSDesc('T154N-R97W Sec 14: NE/4, Sec 15: W/2')
    if k == 'tractlist':
        return _p.TractList([T('a', trs='5n6w07'), T('b', trs='5n6w08')])
    if k == 'nested_list':
        return [T('c', trs='9n9w09')]
    raise ValueError(k)


def leaf_list(obj):
    """Flatten nested containers to their leaves."""
    if isinstance(obj, (_p.PLSSDesc,)):
        return list(obj.tracts)
    if isinstance(obj, (_p.TractList, _p.TRSList, list, tuple)):
        out = []
        for o in obj:
            out.extend(leaf_list(o))
        return out
    return [obj]


def acceptable(listkind, leaf):
    if listkind == 'tract':
        return isinstance(leaf, _p.Tract)
    return isinstance(leaf, (str, _p.TRS, _p.Tract))


def expected_entry(listkind, leaf):
    if listkind == 'tract':
        return ('id', id(leaf))
    if isinstance(leaf, str):
        return ('trs', _p.TRS(leaf).trs)
    return ('trs', leaf.trs)


def entry_of(listkind, e):
    if listkind == 'tract':
        return ('id', id(e))

    if not isinstance(e, _p.TRS):
        return ('raw', repr(e))
    return ('trs', e.trs)


def judge_construct(acc, ck, case, listkind, supplied, existing, run, flatten_required):
    """supplied: list of element objects as given; run() -> resulting container (or raises)."""
    is_container = [isinstance(e, (_p.PLSSDesc, _p.TractList, _p.TRSList, list, tuple)) for e in supplied]
    flat = leaf_list(supplied)
    all_ok = all(acceptable(listkind, lf) for lf in flat)
    try:
        res = run()
        outcome = 'ok'
    except TypeError:
        outcome = 'TypeError'
        res = None
    except Exception as e:  # noqa
        outcome = type(e).__name__
        res = None
    acc.case(ck, outcome + (':' + str(len(res)) if res is not None else ''), nontrivial=bool(supplied))
    acc.states += 1
    acc.transitions += 1
    if outcome not in ('ok', 'TypeError'):
        viol(acc, 'construct_wrong_exception', ck, case, got=outcome, exp='TypeError or success')
        return
    want_flat = [expected_entry(listkind, lf) for lf in flat] if all_ok else None
    want_direct = None
    if not any(is_container) and all_ok:
        want_direct = want_flat
    if outcome == 'TypeError':
        if all_ok and (flatten_required or not any(is_container)):
            viol(acc, 'construct_rejected_acceptable', ck, case, got='TypeError', exp='all elements contained')
        else:
            acc.guard('construct_typeerror')
        return
    got = [entry_of(listkind, e) for e in res]
    want = list(existing) + (want_flat or [])
    if want_flat is None or got != want:
        cls = 'construct_silent_drop' if len(got) < len(existing) + len(flat) else 'construct_wrong_content'
        viol(acc, cls, ck, case, got=got, exp=(want if want_flat is not None else 'TypeError'))
    else:
        acc.guard('construct_ok')


ITER_PATHS = ['constructor', 'constructor_tuple', 'constructor_gen', 'extend', 'iadd', 'add', 'from_multiple_args',
              'from_multiple_list', 'from_multiple_nested']
SINGLE_PATHS = ['append', 'insert', 'setitem']


def construct_case(acc, listkind, path, kinds):
    cls_ = _p.TractList if listkind == 'tract' else _p.TRSList
    ck = f"construct|{listkind}|{path}|{','.join(kinds)}"
    case = {'op': 'construct', 'listkind': listkind, 'path': path, 'kinds': list(kinds)}
    supplied = [make_elem(k) for k in kinds]
    base_elems = [_p.Tract('base', trs='3n4w05')] if listkind == 'tract' else [_p.TRS('3n4w05')]
    existing = []
    flatten_required = False
    if path == 'constructor':
        run = lambda: cls_(list(supplied))
    elif path == 'constructor_tuple':
        run = lambda: cls_(tuple(supplied))
    elif path == 'constructor_gen':
        run = lambda: cls_(x for x in supplied)
    elif path in ('extend', 'iadd', 'add'):
        existing = [entry_of(listkind, e) for e in base_elems]

        def run():
            c = cls_(base_elems)
            if path == 'extend':
                c.extend(list(supplied))
                return c
            if path == 'iadd':
                c += list(supplied)
                return c
            r = c + list(supplied)
            if [entry_of(listkind, e) for e in c] != existing:
                raise RuntimeError('__add__ changed the left operand')
            return r
    elif path == 'from_multiple_args':
        flatten_required = True
        run = lambda: cls_.from_multiple(*supplied)
    elif path == 'from_multiple_list':
        flatten_required = True
        run = lambda: cls_.from_multiple(list(supplied))
    elif path == 'from_multiple_nested':
        flatten_required = True

        def run():
            nest = None
            for e in reversed(supplied):
                nest = [e] if nest is None else [e, nest]
            return cls_.from_multiple(nest if nest is not None else [])
    else:
        raise ValueError(path)
    judge_construct(acc, ck, case, listkind, supplied, existing, run, flatten_required)


CONTAINER_KINDS = ['tractlist', 'trslist', 'plssdesc', 'empty_tractlist', 'empty_trslist']
CONTAINER_PATHS = ['constructor', 'extend', 'iadd', 'add']


def container_case(acc, listkind, path, ckind):
    """A library container handed over *as the iterable itself* (not inside a list): its elements are checked / converted like
    any others (a TRSList made from a TractList holds TRS objects; a TractList does not accept the TRS objects of a TRSList)."""
    cls_ = _p.TractList if listkind == 'tract' else _p.TRSList
    ck = f"container|{listkind}|{path}|{ckind}"
    case = {'op': 'container', 'listkind': listkind, 'path': path, 'ckind': ckind}
    T = _p.Tract
    if ckind == 'tractlist':
        cont = _p.TractList([T('a', trs='5n6w07'), T('b', trs='5n6w08'), T('c', trs='5n6w07')])
    elif ckind == 'trslist':
        cont = _p.TRSList(['5n6w07', '5n6w08', '5n6w07'])
    elif ckind == 'plssdesc':
        cont = _p.PLSSDesc('T154N-R97W Sec 14: NE/4, Sec 15: W/2')
    elif ckind == 'empty_tractlist':
        cont = _p.TractList()
    else:
        cont = _p.TRSList()
    supplied = list(cont.tracts) if ckind == 'plssdesc' else list(cont)
    before = [id(e) for e in supplied]
    base_elems = [_p.Tract('base', trs='3n4w05')] if listkind == 'tract' else [_p.TRS('3n4w05')]
    existing = []
    if path == 'constructor':
        run = lambda: cls_(cont)
    else:
        existing = [entry_of(listkind, e) for e in base_elems]

        def run():
            c = cls_(base_elems)
            if path == 'extend':
                c.extend(cont)
                return c
            if path == 'iadd':
                c += cont
                return c
            return c + cont
    judge_construct(acc, ck, case, listkind, supplied, existing, run, True)
    after = [id(e) for e in (cont.tracts if ckind == 'plssdesc' else cont)]
    if after != before:
        viol(acc, 'construct_changed_source', ck, case, got=len(after), exp=len(before), note='the container handed over was modified')


def single_case(acc, listkind, path, kind):
    cls_ = _p.TractList if listkind == 'tract' else _p.TRSList
    ck = f"construct|{listkind}|{path}|{kind}"
    case = {'op': 'single', 'listkind': listkind, 'path': path, 'kind': kind}
    obj = make_elem(kind)
    if listkind == 'tract':
        base = [_p.Tract('b1', trs='3n4w05'), _p.Tract('b2', trs='3n4w06')]
    else:
        base = [_p.TRS('3n4w05'), _p.TRS('3n4w06')]
    ok = acceptable(listkind, obj) and not isinstance(obj, (list, tuple))
    try:
        c = cls_(base)
        if path == 'append':
            c.append(obj)
            want = [entry_of(listkind, b) for b in base] + [expected_entry(listkind, obj) if ok else None]
        elif path == 'insert':
            c.insert(1, obj)
            want = [entry_of(listkind, base[0]), expected_entry(listkind, obj) if ok else None,
                    entry_of(listkind, base[1])]
        else:
            c[1] = obj
            want = [entry_of(listkind, base[0]), expected_entry(listkind, obj) if ok else None]
        outcome = 'ok'
    except TypeError:
        outcome = 'TypeError'
    except Exception as e:  # noqa
        outcome = type(e).__name__
    acc.case(ck, outcome)
    acc.states += 1
    acc.transitions += 1
    if outcome not in ('ok', 'TypeError'):
        viol(acc, 'construct_wrong_exception', ck, case, got=outcome)
    elif outcome == 'TypeError':
        if ok:
            viol(acc, 'construct_rejected_acceptable', ck, case, got='TypeError')
        else:
            acc.guard('single_typeerror')
    else:
        got = [entry_of(listkind, e) for e in c]
        if not ok or got != want:
            viol(acc, 'single_wrong_content', ck, case, got=got, exp=want if ok else 'TypeError')
        else:
            acc.guard('single_ok')


def str_iterable_case(acc, listkind):
    cls_ = _p.TractList if listkind == 'tract' else _p.TRSList
    for path in ('constructor', 'extend', 'iadd', 'add'):
        ck = f"construct|{listkind}|{path}|<str as iterable>"
        case = {'op': 'str_iterable', 'listkind': listkind, 'path': path}
        try:
            c = cls_()
            if path == 'constructor':
                cls_('154n97w14')
            elif path == 'extend':
                c.extend('154n97w14')
            elif path == 'iadd':
                c += '154n97w14'
            else:
                c + '154n97w14'
            outcome = 'ok'
        except TypeError:
            outcome = 'TypeError'
        except Exception as e:  # noqa
            outcome = type(e).__name__
        acc.case(ck, outcome)
        acc.states += 1
        acc.transitions += 1
        if outcome != 'TypeError':
            viol(acc, 'str_iterable_accepted', ck, case, got=outcome, exp='TypeError')


# ------------------------------------------------------------------ driver
def units(tier):
    us = []
    lmax = LMAX[tier]
    for kind in ('tract', 'trs'):
        for L in range(0, lmax + 1):
            if L <= 2:
                us.append({'u': 'ops', 'kind': kind, 'L': L, 'first': []})
            elif L <= 4:
                for f in range(7):
                    us.append({'u': 'ops', 'kind': kind, 'L': L, 'first': [f]})
            else:
                for f in range(7):
                    for g in range(7):
                        us.append({'u': 'ops', 'kind': kind, 'L': L, 'first': [f, g]})
        for f in (None, 0, 1, 2, 3, 4, 5, 6):
            us.append({'u': 'into', 'kind': kind, 'first': f})
        for path in ITER_PATHS:
            us.append({'u': 'construct', 'listkind': kind, 'path': path})
        us.append({'u': 'single', 'listkind': kind})
        us.append({'u': 'container', 'listkind': kind})
    for f in range(6):
        us.append({'u': 'dups', 'first': f})
    return us


def space(tier):
    return {'bound': f"lists of length <= {LMAX[tier]} over 7 pool elements per list kind; into-chaining for lists of length <= 2; "
                     f"construction iterables of length <= 3 over {len(KINDS)} element kinds x {len(ITER_PATHS)} paths; "
                     f"{len(SINGLE_PATHS)} single-object paths; {len(CONTAINER_KINDS)} library containers handed over as the iterable itself x {len(CONTAINER_PATHS)} paths",
            'caps_hit': []}


def run_ops(acc, kind, idx):
    op_filter(acc, kind, idx, 'direct')
    if kind == 'tract' and len(idx) <= 3:
        op_filter(acc, kind, idx, 'plss')
    op_filter_errors(acc, kind, idx)
    op_dups(acc, kind, idx)
    if len(idx) <= 3:
        op_radd(acc, kind, idx)
    op_group(acc, kind, idx)


def run_unit(unit, tier):
    acc = Acc()
    if unit['u'] == 'ops':
        first = tuple(unit['first'])
        for tail in itertools.product(range(7), repeat=unit['L'] - len(first)):
            run_ops(acc, unit['kind'], first + tail)
    elif unit['u'] == 'dups':
        for L in range(1, 5):
            for tail in itertools.product(range(6), repeat=L - 1):
                op_dups(acc, 'dtract', (unit['first'],) + tail)
    elif unit['u'] == 'into':
        lists = [t for L in range(0, 3) for t in itertools.product(range(7), repeat=L)]
        f = unit['first']
        for idx2 in lists:
            if (f is None and idx2) or (f is not None and (not idx2 or idx2[0] != f)):
                continue
            for idx in lists:
                op_group(acc, unit['kind'], idx, idx2)
    elif unit['u'] == 'container':
        for path in CONTAINER_PATHS:
            for ckind in CONTAINER_KINDS:
                container_case(acc, unit['listkind'], path, ckind)
    elif unit['u'] == 'construct':
        for L in range(0, 4):
            for kinds in itertools.product(KINDS, repeat=L):
                construct_case(acc, unit['listkind'], unit['path'], kinds)
    else:
        for path in SINGLE_PATHS:
            for k in KINDS:
                single_case(acc, unit['listkind'], path, k)
        str_iterable_case(acc, unit['listkind'])
    return acc.result()


def replay(case):
    acc = Acc()
    op = case['op']
    if op == 'construct':
        construct_case(acc, case['listkind'], case['path'], tuple(case['kinds']))
    elif op == 'container':
        container_case(acc, case['listkind'], case['path'], case['ckind'])
    elif op == 'single':
        single_case(acc, case['listkind'], case['path'], case['kind'])
    elif op == 'str_iterable':
        str_iterable_case(acc, case['listkind'])
    else:
        idx = tuple(case['idx'])
        kind = case['kind']
        if op == 'filter':
            op_filter(acc, kind, idx, case.get('via', 'direct'))
        elif op == 'filter_errors':
            op_filter_errors(acc, kind, idx)
        elif op == 'filter_duplicates':
            op_dups(acc, kind, idx)
        elif op == 'radd':
            op_radd(acc, kind, idx)
        else:
            ii = case.get('into_idx')
            op_group(acc, kind, idx, tuple(ii) if ii is not None else None)
    # only the violations with the recorded class are relevant to this replay, but report all
    return acc.viol


def guards(info):
    g = info['guards']
    out = []
    for name in ('filter_split', 'filter_errors_split', 'dups_found', 'several_groups', 'nested_multi',
                 'construct_ok', 'construct_typeerror', 'single_ok', 'single_typeerror'):
        if not g.get(name):
            out.append(f"never observed: {name}")
    return out
