"""
C12 - the Twp/Rge/Sec standard form is canonical, round-trips, and is strict.

(a) constructor side: every (twp, ns, rge, ew, sec) from a boundary-value pool x every
    input encoding x every source of default directions, through TRS.from_twprgesec,
    TRS.construct_trs, TRS().set_twprgesec, Tract.from_twprgesec;
(b) string side: every string within edit distance 1 (quick) / 2 (thorough) of each
    seed string (valid, error, undefined, partial placeholders, bare Twp/Rge) over a
    30-character alphabet, through TRS(s), trs_to_dict(s), TRS.trs_to_dict(s),
    Tract(desc, trs=s), with the cache on and off.
"""
import itertools
import re
import zlib

from ..core import Acc, import_pytrs

ID = 'C12'
LEVEL = 'model_checking'
TECHNIQUE = ('bounded exhaustive enumeration: all strings within edit distance <= 2 of 9 seed TRS strings + all '
             'constructor encodings over a boundary-value pool, against an independent canonical-form oracle')
LEVEL_TEXT = ('Every string at edit distance <= 1 (quick; <= 2 thorough) from 9 seeds over a 30-character alphabet and every '
              'constructor encoding of a boundary-value pool is run through all four public entry points with the cache on and '
              'off; the oracle is an independent anchored regular expression + canonical formatter. Strictness defects '
              '(unanchored match, blanket lower-casing, padding) are single-character phenomena, so distance 2 is a strong bound.')
LEVEL_NOTE = ('Trusted: the oracle STD regex in mc/props/c12.py. A bare Twp/Rge ("154n97w") is accepted as designed input '
              '(used by pretty_desc) and may yield "<twprge>XX". Upper-case direction letters are accepted and lower-cased.')
RULE = (
    "generator automaton over edit scripts: state = (seed string, list of <= d single-character edits "
    "(insert/delete/substitute over the alphabet '0123456789nsewXz_NSEW -axZ' + newline + tab + two non-ASCII decimal digits)); transition = one more edit; states are "
    "canonicalised by the resulting string (deduplicated across seeds and scripts by a crc32 partition); every state "
    "is executed through TRS(s), trs_to_dict(s), Tract('x', trs=s), TRS(TRS(s).trs) with the cache on and off. "
    "Constructor side: product of twp, rge in {0,1,9,10,99,100,154,999}, sec in {0,1,9,10,36,99}, n/s, e/w x 7 encodings "
    "x 3 default sources (+ ocr_scrub on) x 4 entry points, plus placeholder/garbage components. Non-trivial = every distinct string / tuple."
)
ASSUMPTIONS = [
    "strings further than edit distance 2 from a seed are not explored",
    "a string is 'exactly in the standard form' iff it fully matches (d{1,3}[nsNS]|XXXz|___z)(d{1,3}[ewEW]|XXXz|___z)(dd|XX|__) with d an ASCII digit 0-9; "
    "the bare Twp/Rge form without section is the one designed exception",
]

SEEDS = ['154n97w14', '1s2e01', '12n3w36', 'XXXzXXXzXX', '___z___z__',
         '154nXXXz14', '___z97w__', '154n97wXX', '154n97w']
ALPHABET = '0123456789nsewXz_NSEW -axZ\n\t\u0967\uff11'     # incl. two non-ASCII decimal digits (Devanagari, full-width)
SMALL_ALPHABET = '1nwX_zN xZ\n\u0967'
STD = re.compile(r'(?P<twp>[0-9]{1,3}[nsNS]|XXXz|___z)(?P<rge>[0-9]{1,3}[ewEW]|XXXz|___z)(?P<sec>[0-9]{2}|XX|__)?$')
K_UNITS = {'quick': 16, 'thorough': 64}


def expect(s):
    """-> (trs, dict of expected attributes)"""
    if s in ('', None):
        s = '___z___z__'
    m = STD.fullmatch(s)      # not .match(): '$' would also match before a trailing newline
    if not m:
        twp, rge, sec = 'XXXz', 'XXXz', 'XX'
    else:
        twp, rge, sec = m['twp'], m['rge'], m['sec']
        if twp[0].isdigit():
            twp = twp.lower()
        if rge[0].isdigit():
            rge = rge.lower()
        if sec is None:
            sec = 'XX'
    d = {'trs': twp + rge + sec, 'twp': twp, 'rge': rge, 'sec': sec,
         'twp_num': int(twp[:-1]) if twp[0].isdigit() else None,
         'twp_ns': twp[-1] if twp[0].isdigit() else None,
         'rge_num': int(rge[:-1]) if rge[0].isdigit() else None,
         'rge_ew': rge[-1] if rge[0].isdigit() else None,
         'sec_num': int(sec) if sec.isdigit() else None,
         'twp_undef': twp == '___z', 'rge_undef': rge == '___z', 'sec_undef': sec == '__'}
    return d['trs'], d


def edits1(v, alphabet):
    for i in range(len(v) + 1):
        for c in alphabet:
            yield v[:i] + c + v[i:]
        if i < len(v):
            yield v[:i] + v[i + 1:]
            for c in alphabet:
                if c != v[i]:
                    yield v[:i] + c + v[i + 1:]


def all_strings(tier):
    """Generator of (string) with possible repeats; callers deduplicate."""
    yield ''
    for v in SEEDS:
        yield v
        for e1 in edits1(v, ALPHABET):
            yield e1
            if tier == 'thorough':
                for e2 in edits1(e1, ALPHABET):
                    yield e2
    if tier == 'quick':
        for v in SEEDS[:1] + SEEDS[5:6] + SEEDS[8:9]:
            for e1 in edits1(v, SMALL_ALPHABET):
                for e2 in edits1(e1, SMALL_ALPHABET):
                    yield e2


TWPS = [0, 1, 9, 10, 99, 100, 154, 999]
RGES = [0, 1, 9, 10, 97, 100, 999]
SECS = [0, 1, 9, 10, 36, 99]


def units(tier):
    k = K_UNITS[tier]
    us = [{'kind': 'str', 'part': i, 'of': k} for i in range(k)]
    for t in TWPS:
        us.append({'kind': 'cons', 'twp': t})
    us.append({'kind': 'cons_special'})
    return us


def space(tier):
    return {'bound': f"edit distance <= {1 if tier == 'quick' else 2} over {len(ALPHABET)} characters from {len(SEEDS)} seeds"
                     + (" (+ distance 2 over 8 characters from 3 seeds)" if tier == 'quick' else '')
                     + "; constructor pool 8x7x6 x n/s x e/w",
            'caps_hit': []}


_p = None


def worker_init(tier):
    global _p
    _p = import_pytrs()


ATTRS = ('trs', 'twp', 'rge', 'sec', 'twp_num', 'twp_ns', 'rge_num', 'rge_ew', 'sec_num',
         'twp_undef', 'rge_undef', 'sec_undef')


def observe_string(s):
    TRS, Tract = _p.TRS, _p.Tract
    obs = {}
    for use_cache in (True, False):
        TRS._USE_CACHE = use_cache
        try:
            t = TRS(s)
            o = {a: getattr(t, a) for a in ATTRS}
            o['twprge'] = t.twprge
            o['dict'] = {a: v for a, v in _p.trs_to_dict(s).items() if a in ATTRS}
            o['dict2'] = {a: v for a, v in TRS.trs_to_dict(s).items() if a in ATTRS}
            tr = Tract('x', trs=s)
            o['tract'] = {a: getattr(tr, a) for a in ATTRS}
            t2 = TRS(t.trs)
            o['idem'] = t2.trs
            o['eq'] = (t2 == t) and (hash(t2) == hash(t)) and (t == TRS(s))
        finally:
            TRS._USE_CACHE = True
        obs['cache' if use_cache else 'nocache'] = o
    return obs


def judge_string(acc, s):
    case = {'kind': 'str', 's': s}
    key = 's:' + s
    try:
        obs = observe_string(s)
    except Exception as e:  # noqa
        acc.case(key, 'EXC')
        acc.violation('exception', f"C12:exception:{s}", case, got=f"{type(e).__name__}: {e}")
        return
    acc.case(key, obs['cache']['trs'])
    acc.states += 1
    acc.transitions += 1
    want, d = expect(s)
    for mode, o in obs.items():
        for where, got in (('TRS', {a: o[a] for a in ATTRS}), ('trs_to_dict', o['dict']),
                           ('TRS.trs_to_dict', o['dict2']), ('Tract', o['tract'])):
            if got != d:
                cls = 'accepts_nonstandard' if (want == 'XXXzXXXzXX' and got['trs'] != want) else \
                      ('placeholder_lost' if ('XXXz' in want or '___z' in want) and want != 'XXXzXXXzXX' else 'wrong_decomposition')
                diff = {a: (got.get(a), d[a]) for a in ATTRS if got.get(a) != d[a]}
                acc.violation(cls, f"C12:{cls}:{s}", case, got=got['trs'], exp=want,
                              note=f"{where} ({mode}): {diff}")
                return
        if o['idem'] != o['trs']:
            acc.violation('not_idempotent', f"C12:not_idempotent:{s}", case, got=o['idem'], exp=o['trs'])
            return
        if not o['eq']:
            acc.violation('eq_hash', f"C12:eq_hash:{s}", case)
            return
        if o['twprge'] != d['twp'] + d['rge']:
            acc.violation('twprge', f"C12:twprge:{s}", case, got=o['twprge'])
            return
    if want == 'XXXzXXXzXX':
        acc.guard('rejected')
    elif 'XXXz' in want or '___z' in want:
        acc.guard('partial_placeholder')
    else:
        acc.guard('accepted_valid')


def encodings(twp, ns, rge, ew, sec):
    """-> list of (label, twp_arg, rge_arg, sec_arg, default_ns, default_ew)"""
    other_ns = 's' if ns == 'n' else 'n'
    other_ew = 'w' if ew == 'e' else 'e'
    return [
        ('int', twp, rge, sec, ns, ew),
        ('digit_str', str(twp), str(rge), str(sec), ns, ew),
        ('dir_lower', f"{twp}{ns}", f"{rge}{ew}", sec, None, None),
        ('dir_lower_other_default', f"{twp}{ns}", f"{rge}{ew}", sec, other_ns, other_ew),
        ('dir_upper_other_default', f"{twp}{ns.upper()}", f"{rge}{ew.upper()}", str(sec), other_ns, other_ew),
        ('zero_padded', f"{twp:03d}", f"{rge:03d}", f"{sec:02d}", ns, ew),
        ('zero_padded_dir', f"{twp:03d}{ns}", f"{rge:03d}{ew.upper()}", f"{sec:02d}", other_ns, other_ew),
        ('int_upper_default', twp, rge, sec, ns.upper(), ew.upper()),
        ('digit_str_upper_default', str(twp), str(rge), str(sec), ns.upper(), ew),
    ]


def construct(entry, a, b, c, dn, de, source, ocr=False):
    """Run one constructor entry point with defaults given by `source`."""
    TRS, Tract, MC = _p.TRS, _p.Tract, _p.MasterConfig
    kw = {}
    raw = None
    saved = (MC.default_ns, MC.default_ew)
    try:
        if source == 'kwarg':
            kw = {'default_ns': dn, 'default_ew': de}
            if ocr:
                # clean digits and direction letters contain nothing for the OCR scrubber to repair: same result expected
                if entry == 'Tract.from_twprgesec':
                    kw['config'] = 'ocr_scrub'
                else:
                    kw['ocr_scrub'] = True
        elif source == 'master':
            if dn is not None:
                MC.default_ns = dn
            if de is not None:
                MC.default_ew = de
        elif source == 'config':
            pass
        if entry == 'TRS.from_twprgesec':
            if source == 'config':
                return None
            t = TRS.from_twprgesec(a, b, c, **kw)
        elif entry == 'TRS.construct_trs':
            if source == 'config':
                return None
            raw = TRS.construct_trs(a, b, c, **kw)
            t = TRS(raw)
        elif entry == 'TRS.set_twprgesec':
            if source == 'config':
                return None
            t = TRS()
            raw = t.set_twprgesec(a, b, c, **kw)
        elif entry == 'Tract.from_twprgesec':
            if source == 'config':
                cfg = ','.join(x for x in (dn, de) if x)
                t = Tract.from_twprgesec('x', a, b, c, config=cfg)
            else:
                t = Tract.from_twprgesec('x', a, b, c, **kw)
        else:
            raise ValueError(entry)
        out = {x: getattr(t, x) for x in ATTRS}
        if raw is not None:
            out['returned'] = raw      # the string handed back by construct_trs / set_twprgesec
        return out
    finally:
        MC.default_ns, MC.default_ew = saved


ENTRIES = ('TRS.from_twprgesec', 'TRS.construct_trs', 'TRS.set_twprgesec', 'Tract.from_twprgesec')


def judge_cons(acc, twp, ns, rge, ew, sec, enc, entry, source, ocr=False):
    label, a, b, c, dn, de = enc
    if source != 'kwarg' and dn is None:
        # no defaults to convey through this source: identical to the kwarg case
        return
    case = {'kind': 'cons', 'args': [a, b, c, dn, de], 'entry': entry, 'source': source,
            'want': [twp, ns, rge, ew, sec], 'ocr': ocr}
    key = f"c:{a!r},{b!r},{c!r},{dn},{de},{entry},{source}{',ocr' if ocr else ''}"
    want = f"{twp}{ns}{rge}{ew}{sec:02d}"
    _, d = expect(want)
    try:
        got = construct(entry, a, b, c, dn, de, source, ocr)
    except Exception as e:  # noqa
        acc.case(key, 'EXC')
        acc.violation('exception', f"C12:cons_exception:{key}", case, got=f"{type(e).__name__}: {e}")
        return
    if got is None:
        return
    acc.case(key, got['trs'])
    acc.states += 1
    acc.transitions += 1
    returned = got.pop('returned', None)
    if got != d:
        diff = {x: (got.get(x), d[x]) for x in ATTRS if got.get(x) != d[x]}
        acc.violation('constructor', f"C12:constructor:{key}", case, got=got['trs'], exp=want, note=str(diff))
    elif returned is not None and returned != want:
        acc.violation('constructor', f"C12:constructor_returned_string:{key}", case, got=returned, exp=want,
                      note='the string returned by the call is not the canonical one')
    else:
        acc.guard('constructor_ok')


SPECIALS = [
    # (args, expected trs, strict)
    # strict: placeholders given as components - the statement demands that they are reported as such and
    # that the other components are kept.
    ((None, None, None), '___z___z__', True),
    (('', '', ''), '___z___z__', True),
    ((None, 97, 14), '___z97w14', True),
    ((154, None, 14), '154n___z14', True),
    ((154, 97, None), '154n97w__', True),
    ((154, 97, ''), '154n97w__', True),
    (('XXXz', 97, 14), 'XXXz97w14', True),
    ((154, 'XXXz', 14), '154nXXXz14', True),
    ((154, 97, 'XX'), '154n97wXX', True),
    (('___z', '___z', '__'), '___z___z__', True),
    (('___z', 97, 14), '___z97w14', True),
    ((154, '___z', '__'), '154n___z__', True),
    (('XXXz', '___z', 14), 'XXXz___z14', True),
    # not strict: garbage components are outside the statement's constructor clause; only "never a different
    # valid-looking Twp/Rge/Sec" is demanded: the garbage component must come out as the error placeholder
    # (the other components may be kept or be errors as well).
    (('abc', 97, 14), 'XXXz97w14', False),
    ((154, 'abc', 14), '154nXXXz14', False),
    ((154, 97, 'abc'), '154n97wXX', False),
    ((1540, 97, 14), 'XXXz97w14', False),
    ((154, 9700, 14), '154nXXXz14', False),
    ((154, 97, 140), '154n97wXX', False),
    (('154x', 97, 14), 'XXXz97w14', False),
    ((154, '97q', 14), '154nXXXz14', False),
    (('-5', 97, 14), 'XXXz97w14', False),
    ((-5, 97, 14), 'XXXz97w14', False),
    ((154, '-7', 14), '154nXXXz14', False),
    ((154, 97, '-1'), '154n97wXX', False),
    ((154, 97, '1.5'), '154n97wXX', False),
    (('1 54', 97, 14), 'XXXz97w14', False),
    # decimal digits outside ASCII: int() understands them, the standard form does not contain them
    (('\u0661\u0665\u0664', 97, 14), '154n97w14', False),
    (('\u0661\u0665\u0664n', '\u0669\u0667w', 14), '154n97w14', False),
    ((154, '\uff19\uff17', 14), '154n97w14', False),
    ((154, 97, '\u0661\u0664'), '154n97w14', False),
    ((154, 97, '\u0967\u096a'), '154n97w14', False),
]


def judge_special(acc, args, want, strict, entry):
    case = {'kind': 'special', 'args': list(args), 'entry': entry, 'want': want, 'strict': strict}
    key = f"sp:{args!r},{entry}"
    _, d = expect(want)
    try:
        got = construct(entry, args[0], args[1], args[2], None, None, 'kwarg')
    except Exception as e:  # noqa
        acc.case(key, 'EXC')
        acc.violation('exception', f"C12:special_exception:{key}", case, got=f"{type(e).__name__}: {e}")
        return
    got.pop('returned', None)
    acc.case(key, got['trs'])
    acc.states += 1
    acc.transitions += 1
    if strict:
        if got != d:
            diff = {x: (got.get(x), d[x]) for x in ATTRS if got.get(x) != d[x]}
            acc.violation('constructor_placeholder', f"C12:constructor_placeholder:{key}", case,
                          got=got['trs'], exp=want, note=str(diff))
        else:
            acc.guard('constructor_placeholder_ok')
        return
    # weak rule: each component is either what the strict expectation says or the error placeholder,
    # and the garbage component is the error placeholder
    bad = []
    for comp, err in (('twp', 'XXXz'), ('rge', 'XXXz'), ('sec', 'XX')):
        if got[comp] != d[comp] and got[comp] != err:
            bad.append((comp, got[comp], d[comp]))
    if got['trs'] != got['twp'] + got['rge'] + got['sec']:
        bad.append(('trs', got['trs'], None))
    if bad:
        acc.violation('constructor_garbage_accepted', f"C12:constructor_garbage_accepted:{key}", case,
                      got=got['trs'], exp=want, note=str(bad))
    else:
        acc.guard('constructor_garbage_rejected')


def run_unit(unit, tier):
    acc = Acc()
    if unit['kind'] == 'str':
        seen = set()
        part, of = unit['part'], unit['of']
        # the TRS cache is process-global: start every unit from a cache that already holds the seeds (and the
        # canonical forms), so that a near-miss string is looked up in a *warm* cache as well
        for v in SEEDS:
            _p.TRS(v)
            _p.TRS(expect(v)[0])
        for s in all_strings(tier):
            if zlib.crc32(s.encode()) % of != part or s in seen:
                continue
            seen.add(s)
            judge_string(acc, s)
    elif unit['kind'] == 'cons':
        twp = unit['twp']
        for rge, sec, ns, ew in itertools.product(RGES, SECS, 'ns', 'ew'):
            for enc in encodings(twp, ns, rge, ew, sec):
                for entry in ENTRIES:
                    for source in ('kwarg', 'master', 'config'):
                        judge_cons(acc, twp, ns, rge, ew, sec, enc, entry, source)
                    judge_cons(acc, twp, ns, rge, ew, sec, enc, entry, 'kwarg', ocr=True)
    else:
        for args, want, strict in SPECIALS:
            for entry in ENTRIES:
                judge_special(acc, args, want, strict, entry)
    return acc.result()


def replay(case):
    acc = Acc()
    if case['kind'] == 'str':
        judge_string(acc, case['s'])
    elif case['kind'] == 'cons':
        a, b, c, dn, de = case['args']
        twp, ns, rge, ew, sec = case['want']
        judge_cons(acc, twp, ns, rge, ew, sec, ('replay', a, b, c, dn, de), case['entry'], case['source'], case.get('ocr', False))
    else:
        judge_special(acc, tuple(case['args']), case['want'], case.get('strict', True), case['entry'])
    return acc.viol


def guards(info):
    g = info['guards']
    out = []
    for name in ('rejected', 'partial_placeholder', 'accepted_valid', 'constructor_ok',
                 'constructor_placeholder_ok', 'constructor_garbage_rejected'):
        if not g.get(name):
            out.append(f"never observed: {name}")
    return out
