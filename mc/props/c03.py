"""
C03 - parsing is total: any text, any valid configuration, never an exception.

Roots of the generator: (a) token soup over a 29-token PLSS vocabulary breadth-first to a
depth bound, (b) every single (thorough: double) damage edit of 16 well-formed seed
descriptions, (c) a list of special strings; each x parse modes (0/1/2 deviations from the
default configuration, through init / config / parse() channels); (d) the same texts
through Tract(text, parse_qq=True, config) and Tract.parse(**kw); (e) a finite menu of
*invalid* arguments, for which only the documented exception types are admitted.
"""
import os
import traceback
import warnings
import zlib

from ..core import Acc, import_pytrs
from .. import soup

ID = 'C03'
LEVEL = 'model_checking'
TECHNIQUE = ('breadth-first token-soup enumeration (depth 3/4 over 29 tokens) + all single/double damage edits of seed descriptions '
             '+ special strings, x parse-mode deviations, executed on the real PLSSDesc/Tract; oracle: no exception, >= 1 tract')
LEVEL_TEXT = ('Every token string up to depth 3 (quick) / 4 (thorough) over a 29-token vocabulary that contains every marker kind the '
              'parser reacts to (Twp/Rge whole and in halves, section words, numbers, colon, connectors, through-words, lots, '
              'aliquots, line break, warning phrase, prose) x 16 (quick) parse modes, every damage edit of 16 seed descriptions, 80 '
              'special strings x all mode pairs, the same texts through Tract, and an invalid-argument menu. Totality defects are '
              'unguarded None / index / join errors on short marker sequences, which depth 3 reaches.')
LEVEL_NOTE = ('Trusted: nothing beyond Python itself (the oracle is "no exception and at least one tract"). Strings that need more than '
              '4 vocabulary tokens or characters outside the vocabulary/special list to trigger an exception are not covered.')
RULE = (
    "state = (token sequence | damaged seed | special string, parse mode); transitions append one token / apply one damage edit / "
    "deviate one configuration setting; states are canonicalised by (text, mode name); every state is complete and is executed. "
    "Non-trivial = every distinct (text, mode) pair."
)
ASSUMPTIONS = [
    "tokens are joined by single blanks; other whitespace arrangements come only from the damage edits and the special strings",
    "for the invalid-argument menu an outcome is acceptable iff the call is accepted or raises the documented exception type",
]

_p = None


def worker_init(tier):
    global _p
    _p = import_pytrs()
    warnings.simplefilter('ignore')


def units(tier):
    us = soup.plss_units(tier)
    for f in range(len(soup.V)):
        us.append({'k': 'tract', 'first': f})
    us.append({'k': 'invalid'})
    for f in range(len(LOT_TOKENS)):
        us.append({'k': 'lotsoup', 'first': f})
    for f in range(len(ALIQ_TOKENS)):
        us.append({'k': 'aliqsoup', 'first': f})
    for slot in ('twp', 'rge'):
        for form in range(len(OCR_FORMS)):
            us.append({'k': 'ocr', 'slot': slot, 'form': form})
    return us


# every character the OCR-scrub pattern admits in a number slot (class [0-9SOIl\]\|], matched case-insensitively)
OCR_CHARS = '0159SsOoIiLl]|'
OCR_FORMS = [lambda a, b: f"T{a}N-R{b}W", lambda a, b: f"T{a}S R{b}E", lambda a, b: f"Township {a} North, Range {b} West",
             lambda a, b: f"T{a}NR{b}W", lambda a, b: f"t{a}n-r{b}w"]
OCR_MODES = [('ocr_scrub', {'config': 'ocr_scrub'}, None), ('ocr_scrub,segment', {'config': 'ocr_scrub,segment'}, None),
             ('parse:ocr_scrub', {}, ('parse', {'ocr_scrub': True})), ('default', {}, None)]


def ocr_texts(slot, form):
    import itertools
    f = OCR_FORMS[form]
    for L in (1, 2, 3):
        for chars in itertools.product(OCR_CHARS, repeat=L):
            num = ''.join(chars)
            a, b = (num, '97') if slot == 'twp' else ('154', num)
            yield f"{f(a, b)} Sec 14: NE/4"


def space(tier):
    return {'bound': soup.space_text(tier) + '; Tract side: soup depth <= 3 x 11 configurations; invalid-argument menu; OCR look-alikes: every 1-3 character string over the 14 characters the OCR pattern admits, in the township and in the range slot of 5 spellings x 4 modes',
            'caps_hit': []}


def exc_site(e):
    """innermost frame inside pytrs: 'file.py:function'"""
    tb = traceback.extract_tb(e.__traceback__)
    site = 'unknown'
    for fr in tb:
        if os.sep + 'pytrs' + os.sep in fr.filename:
            site = f"{os.path.basename(fr.filename)}:{fr.name}"
    return site


def judge_plss(acc, text, mode):
    key = f"{mode[0]}|{text}"
    case = {'k': 'plss', 'text': text, 'mode': mode[0]}
    try:
        d = soup.parse(_p, text, mode)
        n = len(d.tracts)
    except Exception as e:  # noqa
        acc.case(key, 'EXC ' + type(e).__name__)
        acc.violation('exception', f"C03:exception:{type(e).__name__}@{exc_site(e)}", case,
                      got=f"{type(e).__name__}: {e}", note=exc_site(e))
        return
    acc.case(key, f"{n}:{d.current_layout}")
    acc.states += 1
    acc.transitions += 1
    if n < 1:
        acc.violation('no_tract', f"C03:no_tract:{key}", case, got=0, exp='>= 1')
    elif n > 1:
        acc.guard('multi_tract')
    if d.current_layout == 'copy_all':
        acc.guard('copy_all_fallback')


TRACT_CFGS = [None, 'clean_qq', 'suppress_lot_divs', 'qq_depth.1', 'qq_depth_min.3,qq_depth_max.3,break_halves',
              'clean_qq,qq_depth_min.1,qq_depth_max.2,break_halves,suppress_lot_divs', 's,e,ocr_scrub']
TRACT_KW = [{'clean_qq': True}, {'qq_depth': 3, 'break_halves': True}, {'qq_depth_min': 1, 'qq_depth_max': 1},
            {'suppress_lot_divs': True, 'commit': False}]


def judge_tract(acc, text):
    for cfg in TRACT_CFGS:
        key = f"tract|{cfg}|{text}"
        case = {'k': 'tract', 'text': text, 'cfg': cfg}
        try:
            t = _p.Tract(text, trs='154n97w14', parse_qq=True, config=cfg)
            obs = [t.lots, t.qqs]
        except Exception as e:  # noqa
            acc.case(key, 'EXC ' + type(e).__name__)
            acc.violation('tract_exception', f"C03:tract_exception:{type(e).__name__}@{exc_site(e)}", case,
                          got=f"{type(e).__name__}: {e}", note=exc_site(e))
            continue
        acc.case(key, obs)
        acc.states += 1
        acc.transitions += 1
        if obs[0] or obs[1]:
            acc.guard('tract_found_something')
    for kw in TRACT_KW:
        key = f"tractparse|{sorted(kw.items())}|{text}"
        case = {'k': 'tractparse', 'text': text, 'kw': kw}
        try:
            t = _p.Tract(text)
            r = t.parse(**kw)
            t.preprocess(commit=True)
        except Exception as e:  # noqa
            acc.case(key, 'EXC ' + type(e).__name__)
            acc.violation('tract_exception', f"C03:tract_exception:{type(e).__name__}@{exc_site(e)}", case,
                          got=f"{type(e).__name__}: {e}", note=exc_site(e))
            continue
        acc.case(key, r)
        acc.states += 1
        acc.transitions += 1


# ------------------------------------------------------------------ invalid arguments
def invalid_menu():
    """-> list of (label, thunk-builder, acceptable exception type names)"""
    P = _p
    from pytrs.parser.config import ConfigError, DefaultNSError, DefaultEWError
    good = 'T154N-R97W Sec 14: NE/4, Township 7, Range 9 Sec 1: Lot 1'
    menu = []
    for bad in (None, 5, 1.5, b'T154N-R97W Sec 14: NE/4', ['T154N-R97W Sec 14: NE/4'], ('x',), {'a': 1}, object):
        menu.append((f"PLSSDesc({bad!r})", lambda bad=bad: P.PLSSDesc(bad), (TypeError,)))
        menu.append((f"PLSSDesc({bad!r}, wait_to_parse=True)", lambda bad=bad: P.PLSSDesc(bad, wait_to_parse=True), (TypeError,)))
        menu.append((f"Tract({bad!r}, parse_qq=True)", lambda bad=bad: P.Tract(bad, parse_qq=True), (TypeError,)))
        if bad is not None:
            menu.append((f"Tract('NE/4', trs={bad!r})", lambda bad=bad: P.Tract('NE/4', trs=bad), (TypeError,)))
    for bad in (5, 1.5, ['segment'], ('n',), {'segment': True}, object, b'segment'):
        menu.append((f"PLSSDesc(config={bad!r})", lambda bad=bad: P.PLSSDesc(good, config=bad), (ConfigError,)))
        menu.append((f"Tract(config={bad!r})", lambda bad=bad: P.Tract('NE/4', config=bad), (ConfigError,)))
        menu.append((f"Config({bad!r})", lambda bad=bad: P.Config(bad), (ConfigError,)))
        menu.append((f"plssdesc.config={bad!r}", lambda bad=bad: setattr(P.PLSSDesc(good), 'config', bad), (ConfigError,)))
        menu.append((f"Tract.from_twprgesec(config={bad!r})",
                     lambda bad=bad: P.Tract.from_twprgesec('NE/4', 154, 97, 14, config=bad), (ConfigError,)))
    names = list(P.Config._CONFIG_ATTRIBUTES)
    edits = set()
    for nm in names:
        for i in range(len(nm)):
            edits.add(nm[:i] + nm[i + 1:])
            edits.add(nm[:i] + 'x' + nm[i + 1:])
        edits.add(nm + 's')
        edits.add('x' + nm)
    edits -= set(names)
    edits -= {'n', 's', 'e', 'w', 'N', 'S', 'E', 'W', ''}
    for nm in sorted(edits):
        menu.append((f"PLSSDesc(config={nm!r})", lambda nm=nm: P.PLSSDesc(good, config=nm, parse_qq=True), (ValueError,)))
        menu.append((f"Tract(config={nm + '.True'!r})", lambda nm=nm: P.Tract('NE/4', config=nm + '.True', parse_qq=True), (ValueError,)))
    for nm in ('foo', 'n,foo', 'segment,foo.3', 'foo=bar', 'copy_al', 'TRS_Desc', 'trs_desc', 'nw', 'north'):
        menu.append((f"PLSSDesc(config={nm!r})", lambda nm=nm: P.PLSSDesc(good, config=nm, parse_qq=True), (ValueError,)))
        menu.append((f"Config({nm!r})", lambda nm=nm: P.Config(nm), (ValueError,)))
    # ill-typed values for int / bool settings: accepted or ConfigError/ValueError, nothing else
    for val in ('x', '', '1.5', 'None', '-1', '0', 'two', 'True'):
        for nm in ('qq_depth', 'qq_depth_min', 'qq_depth_max'):
            c = f"{nm}.{val}"
            menu.append((f"PLSSDesc(config={c!r}, parse_qq=True)", lambda c=c: P.PLSSDesc(good, config=c, parse_qq=True),
                         (ValueError, ConfigError)))
            menu.append((f"Tract(config={c!r}, parse_qq=True)", lambda c=c: P.Tract('N/2NE/4, Lot 1', config=c, parse_qq=True),
                         (ValueError, ConfigError)))
    for val in ('x', 'maybe', '1', '0', 'none'):
        for nm in ('segment', 'clean_qq', 'sec_colon_required', 'break_halves', 'parse_qq', 'sec_within'):
            c = f"{nm}.{val}"
            menu.append((f"PLSSDesc(config={c!r}, parse_qq=True)", lambda c=c: P.PLSSDesc(good, config=c, parse_qq=True),
                         (ValueError, ConfigError)))
    # default directions
    for bad in ('x', 'north-ish', '', 'ne', 5, ['n'], 'W'):
        menu.append((f"parse(default_ns={bad!r})", lambda bad=bad: P.PLSSDesc(good, wait_to_parse=True).parse(default_ns=bad),
                     (DefaultNSError,)))
        menu.append((f"TRS.from_twprgesec(default_ns={bad!r})", lambda bad=bad: P.TRS.from_twprgesec(154, 97, 14, default_ns=bad),
                     (DefaultNSError,)))
        menu.append((f"Tract.from_twprgesec(default_ns={bad!r})",
                     lambda bad=bad: P.Tract.from_twprgesec('NE/4', 154, 97, 14, default_ns=bad), (DefaultNSError,)))
        menu.append((f"find_twprge(default_ns={bad!r})", lambda bad=bad: P.find_twprge(good, default_ns=bad, preprocess=True),
                     (DefaultNSError,)))
        if isinstance(bad, str):
            menu.append((f"config='default_ns.{bad}'", lambda bad=bad: P.PLSSDesc(good, config=f"default_ns.{bad}"),
                         (DefaultNSError,)))
    for bad in ('x', 'west-ish', '', 'sw', 5, ['e'], 'N'):
        menu.append((f"parse(default_ew={bad!r})", lambda bad=bad: P.PLSSDesc(good, wait_to_parse=True).parse(default_ew=bad),
                     (DefaultEWError,)))
        menu.append((f"TRS.from_twprgesec(default_ew={bad!r})", lambda bad=bad: P.TRS.from_twprgesec(154, 97, 14, default_ew=bad),
                     (DefaultEWError,)))
        menu.append((f"Tract.from_twprgesec(default_ew={bad!r})",
                     lambda bad=bad: P.Tract.from_twprgesec('NE/4', 154, 97, 14, default_ew=bad), (DefaultEWError,)))
        if isinstance(bad, str):
            menu.append((f"config='default_ew.{bad}'", lambda bad=bad: P.PLSSDesc(good, config=f"default_ew.{bad}"),
                         (DefaultEWError,)))

    def with_master(attr, val, fn):
        MC = P.MasterConfig
        old = getattr(MC, attr)
        setattr(MC, attr, val)
        try:
            return fn()
        finally:
            setattr(MC, attr, old)
    menu.append(("MasterConfig.default_ns='x'", lambda: with_master('default_ns', 'x', lambda: P.PLSSDesc(good)), (DefaultNSError,)))
    menu.append(("MasterConfig.default_ew='x'", lambda: with_master('default_ew', 'x', lambda: P.PLSSDesc(good)), (DefaultEWError,)))
    menu.append(("MasterConfig.default_ns='x' TRS", lambda: with_master('default_ns', 'x', lambda: P.TRS.from_twprgesec(1, 2, 3)),
                 (DefaultNSError,)))
    return menu


def judge_invalid(acc, only=None):
    for label, thunk, ok_types in invalid_menu():
        if only is not None and label != only:
            continue
        key = 'invalid|' + label
        case = {'k': 'invalid', 'label': label}
        try:
            thunk()
            res = 'accepted'
        except Exception as e:  # noqa
            res = type(e).__name__
            if not isinstance(e, ok_types):
                acc.case(key, res)
                acc.states += 1
                acc.transitions += 1
                acc.violation('undocumented_exception', f"C03:undocumented_exception:{label}", case,
                              got=f"{type(e).__name__}: {e}", exp=' or '.join(t.__name__ for t in ok_types) + ' (or accepted)',
                              note=exc_site(e))
                continue
        acc.case(key, res)
        acc.states += 1
        acc.transitions += 1
        acc.guard('invalid_' + ('accepted' if res == 'accepted' else 'rejected'))


# tokens of lot lists incl. acreages, repeated lot numbers and divisions: every sequence of <= 4 tokens is a tract description
LOT_TOKENS = ['Lot 1', 'Lots 1', 'Lot 1(40.00)', '1(40.10)', '2(39.50)', 'Lot 2 [38.5]', 'L3', 'and', ',', '-', 'thru', 'N/2 of', '3', '1', 'NE/4',
              '()', 'Lot']


ALIQ_TOKENS = ['N/2', 'S½', 'North Half', 'E2', 'of the', 'of', 'Northwest', 'Northeast', 'South-East', 'South West', 'N.E.', 'NE', 'SW', 'NE¼',
               'NW/4', 'Quarter', 'Half', 'One', '1/4', 'Lot 1', ',']


def aliqsoup_texts(first, depth=3):
    import itertools
    for L in range(1, depth + 1):
        for tail in itertools.product(range(len(ALIQ_TOKENS)), repeat=L - 1):
            yield ' '.join([ALIQ_TOKENS[first]] + [ALIQ_TOKENS[i] for i in tail])


def lotsoup_texts(first, depth=3):
    import itertools
    for L in range(1, depth + 1):
        for tail in itertools.product(range(len(LOT_TOKENS)), repeat=L - 1):
            yield ' '.join([LOT_TOKENS[first]] + [LOT_TOKENS[i] for i in tail])


def run_unit(unit, tier):
    acc = Acc()
    k = unit['k']
    if k == 'aliqsoup':
        for text in aliqsoup_texts(unit['first'], 3):
            judge_tract(acc, text)
        return acc.result()
    if k == 'lotsoup':
        for text in lotsoup_texts(unit['first'], 3 if tier == 'quick' else 4):
            judge_tract(acc, text)
        return acc.result()
    if k == 'tract':
        for text in soup.soup_texts(unit['first'], 3):
            judge_tract(acc, text)
    elif k == 'invalid':
        judge_invalid(acc)
    elif k == 'ocr':
        for text in ocr_texts(unit['slot'], unit['form']):
            for mode in OCR_MODES:
                judge_plss(acc, text, mode)
            if unit['form'] == 0:
                try:
                    _p.find_twprge(text, ocr_scrub=True)
                    _p.PLSSDesc(text, config='ocr_scrub').preprocess(ocr_scrub=True)
                except Exception as e:  # noqa
                    acc.violation('exception', f"C03:exception:{type(e).__name__}@{exc_site(e)}", {'k': 'plss', 'text': text, 'mode': 'ocr_scrub'},
                                  got=f"{type(e).__name__}: {e}", note='find_twprge / preprocess with ocr_scrub')
    else:
        for text, mode in soup.unit_cases(unit, tier):
            judge_plss(acc, text, mode)
        if k == 'specials':
            for text in soup.SPECIALS:
                judge_tract(acc, text)
    return acc.result()


def replay(case):
    acc = Acc()
    if case['k'] == 'plss':
        mode = next((m for m in OCR_MODES if m[0] == case['mode']), None) or soup.mode_by_name(case['mode'])
        judge_plss(acc, case['text'], mode)
    elif case['k'] in ('tract', 'tractparse'):
        judge_tract(acc, case['text'])
    else:
        judge_invalid(acc, only=case['label'])
    return acc.viol


def guards(info):
    g = info['guards']
    out = []
    for name in ('multi_tract', 'copy_all_fallback', 'tract_found_something', 'invalid_accepted', 'invalid_rejected'):
        if not g.get(name):
            out.append(f"never observed: {name}")
    return out
