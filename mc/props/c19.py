"""
C19 - bulk export is faithful, ordered and total over documented attributes.

Every parsed description of a small pool x every single attribute / ordered pair (thorough:
triple) of Tract.ATTRIBUTES (+ unknown names) x header option x file mode x writer is written
to a real file, read back with csv.reader and compared cell by cell with getattr() on the
tracts; record-returning forms (tracts_to_dict/list, iter_to_dict/list, PLSSDesc wrappers)
are compared directly.
"""
import csv
import itertools
import os
import re
import shutil
import tempfile
import warnings

from ..core import Acc, import_pytrs, VERIF

ID = 'C19'
LEVEL = 'model_checking'
TECHNIQUE = ('bounded exhaustive enumeration of attribute tuples x header options x file modes x writers over a pool of '
             'parsed descriptions; real files re-read with csv.reader and compared with getattr() reference cells')
LEVEL_TEXT = ('All singles and ordered pairs (thorough: triples) of the 27 documented attribute names plus 2 unknown names x 4 header '
              'options x {w, a on new file, a on existing file} x {tracts_to_csv, TractWriter (+uid, +plus_cols, two writes)} over 6 '
              'parsed descriptions that contain lots with acreages, duplicate flags, flags with context, multi-line text, commas, '
              'quotes, unicode and non-str sources. Every attribute is exercised in every column position next to every other.')
LEVEL_NOTE = ('Trusted: csv.reader and the cell model (str() for scalars, empty for None, ", ".join for lists of str, "k:v" joined by '
              '"," for dicts; for lists with non-str leaves only "every leaf appears in order" is demanded).')
RULE = (
    "state = (description, attribute tuple, header option, mode/preexisting file, writer variant); transitions append one attribute "
    "or choose one option; every complete state writes a real file under /verif/.work and re-reads it. Non-trivial = every state "
    "(distinct key); records forms are separate states."
)
ASSUMPTIONS = [
    "attribute tuples longer than 2 (quick) / 3 (thorough) are not explored",
    "file-system behaviour is that of the local tmp directory; no I/O faults are injected",
]

TEXTS = [
    ('T154N-R97W Sec 1: Lots 1(38.12), 2, 1, N/2 of Lot 3, "S/2NE/4", less and except the wellbore\nSec 5 - 3: NE/4, NE/4', 'doc,1'),
    ('That part of Sec 14 lying north\nof the river, xyz', None),
    ('T1S-R2E Sec 36: Beginning at a point;\nthence "North" 660 feet, to the POB', 7),
    ('T154N-R97W Sec 14: N½NE¼, Lots 4 [40.00] and 5(39.98), including the SW/4', 'a "quoted" source'),
    ('NE/4 of Section 4, T2N-R2W, and all of Section 5, T3N-R97W, surface to the base of the formation', ('tuple', 1)),
    ('Township 7 North, Range 9 West, Sections 1 through 3: ALL; Sec 4: Lot 1', ''),
]
UNKNOWN = ['bogus', '__nope']
_p = None
DESCS = []
ATTS = []
TMP = None


def worker_init(tier):
    global _p, DESCS, ATTS, TMP
    _p = import_pytrs()
    warnings.simplefilter('ignore')
    DESCS = [_p.PLSSDesc(t, parse_qq=True, source=s) for t, s in TEXTS]
    ATTS = list(_p.Tract.ATTRIBUTES) + UNKNOWN
    os.makedirs(os.path.join(VERIF, '.work'), exist_ok=True)
    TMP = tempfile.mkdtemp(prefix='c19_', dir=os.path.join(VERIF, '.work'))
    import atexit
    atexit.register(shutil.rmtree, TMP, True)


def flat(v):
    out = []
    for e in v:
        if isinstance(e, (list, tuple)):
            out.extend(flat(e))
        else:
            out.append(e)
    return out


def cell_ok(v, got):
    """Is the csv cell `got` a faithful rendering of attribute value v?"""
    if v is None:
        return got == ''
    if isinstance(v, dict):
        return got == ','.join(f"{k}:{x}" for k, x in v.items())
    if isinstance(v, (list, tuple)):
        leaves = flat(v)
        if all(isinstance(e, str) for e in leaves):
            return got == ', '.join(leaves)
        pos = 0
        for e in leaves:
            i = got.find(str(e), pos)
            if i < 0:
                return False
            pos = i + len(str(e))
        return True
    return got == str(v)


def expected_header(atts, hdr, plus=None, uid=False):
    A = _p.Tract.ATTRIBUTES
    if isinstance(hdr, dict):
        h = [hdr.get(a, a) for a in atts]
    elif isinstance(hdr, list):
        h = list(hdr)
    elif hdr:
        h = [A.get(a, a) for a in atts]
    else:
        h = list(atts)
    if plus:
        h += list(plus)
    if uid:
        h.append('UID')
    return h


def alpha(n):
    s = ''
    while n > 0:
        n, r = divmod(n - 1, 26)
        s = chr(ord('a') + r) + s
    return s


HDRS = ['none', 'true', 'list', 'dict']
MODES = [('w', False), ('a', False), ('a', True), ('w', True)]


def mk_hdr(name, atts):
    if name == 'none':
        return False
    if name == 'true':
        return True
    if name == 'list':
        return [f"h{i}" for i in range(len(atts))]
    return {atts[0]: 'H0, "x"'}


def csv_case(acc, di, atts, hname, mode, pre, writer):
    d = DESCS[di]
    atts = list(atts)
    ck = f"{di}|{','.join(atts)}|{hname}|{mode}{int(pre)}|{writer}"
    case = {'op': 'csv', 'desc': di, 'atts': atts, 'hdr': hname, 'mode': mode, 'pre': pre, 'writer': writer}
    hdr = mk_hdr(hname, atts)
    fp = os.path.join(TMP, f"f{os.getpid()}.csv")
    if os.path.exists(fp):
        os.remove(fp)
    if pre:
        with open(fp, 'w', newline='') as f:
            f.write('old,row\r\n')
    plus_h = plus_v = None
    uid = None
    n_writes = 1
    try:
        if writer == 'csv':
            d.tracts_to_csv(atts, fp, mode, nice_headers=hdr)
        elif writer == 'tl':
            _p.TractList(d.tracts).tracts_to_csv(atts, fp, mode, nice_headers=hdr)
        else:
            from pytrs.tractwriter import TractWriter
            kw = {}
            if writer in ('tw_uid', 'tw_both'):
                uid = 3
                kw['uid'] = 3
            if writer in ('tw_plus', 'tw_both'):
                plus_h, plus_v = ['P1', 'P,2'], ['v1', 'v "2"']
                kw['plus_cols'] = plus_h
            w = TractWriter(atts, fp, mode, nice_headers=hdr, **kw)
            w.write(d, plus_cols=plus_v)
            if writer == 'tw_both':
                w.close()
                w.open()
                w.write(list(d.tracts)[:1], plus_cols=plus_v)
                n_writes = 2
            w.close()
    except Exception as e:  # noqa
        acc.case(ck, 'EXC ' + type(e).__name__)
        acc.violation('csv_exception', f"C19:csv_exception:{writer.split('_')[0]}:{','.join(sorted(set(atts)))}:{type(e).__name__}",
                      case, got=f"{type(e).__name__}: {e}")
        return
    with open(fp, newline='') as f:
        rows = list(csv.reader(f))
    acc.case(ck, rows)
    acc.states += 1
    acc.transitions += 1
    exp_rows = []
    if pre and mode == 'a':
        exp_rows.append(('lit', ['old', 'row']))
    else:
        exp_rows.append(('lit', expected_header(atts, hdr, plus_h, uid is not None)))
    tracts = list(d.tracts)
    batches = [tracts] + ([tracts[:1]] if n_writes == 2 else [])
    for bi, batch in enumerate(batches):
        for ti, t in enumerate(batch):
            exp_rows.append(('tract', t, bi, ti, len(batch)))
    if len(rows) != len(exp_rows):
        acc.violation('csv_row_count', f"C19:csv_row_count:{ck}", case, got=len(rows), exp=len(exp_rows))
        return
    for r, e in zip(rows, exp_rows):
        if e[0] == 'lit':
            if r != e[1]:
                acc.violation('csv_header', f"C19:csv_header:{ck}", case, got=r, exp=e[1])
                return
            continue
        _, t, bi, ti, total = e
        ncols = len(atts) + (len(plus_v) if plus_v else 0) + (1 if uid is not None else 0)
        if len(r) != ncols:
            acc.violation('csv_col_count', f"C19:csv_col_count:{ck}", case, got=r, exp=ncols)
            return
        for a, c in zip(atts, r):
            v = ref_value(t, a)
            if not cell_ok(v, c):
                acc.violation('csv_cell', f"C19:csv_cell:{writer.split('_')[0]}:{a}", case, got=c, exp=repr(v),
                              note=f"attribute {a}")
                return
        k = len(atts)
        if plus_v:
            if r[k:k + len(plus_v)] != plus_v:
                acc.violation('csv_plus_cols', f"C19:csv_plus_cols:{ck}", case, got=r, exp=plus_v)
                return
            k += len(plus_v)
        if uid is not None:
            want = f"{uid + bi:04d}.{alpha(ti + 1)}-{alpha(total)}"
            if r[k] != want:
                acc.violation('csv_uid', f"C19:csv_uid:{ck}", case, got=r[k], exp=want)
                return
    acc.guard('csv_ok')
    if any('\n' in c for r in rows for c in r):
        acc.guard('multiline_cell')


def ref_value(t, a):
    """Reference value of attribute `a` of tract `t`: documented attributes (Tract.ATTRIBUTES) are read with a plain getattr -
    a documented attribute that cannot be read is a violation, not a placeholder - and `ilots` is recomputed from `.lots`;
    only names outside Tract.ATTRIBUTES give the documented 'n/a' placeholder."""
    if a not in _p.Tract.ATTRIBUTES:
        return getattr(t, a, f"{a}: n/a")
    if a == 'ilots':
        return [int(re.search(r'L(\d+)$', lot).group(1)) for lot in t.lots]
    return getattr(t, a)


def records_case(acc, di, atts):
    d = DESCS[di]
    atts = list(atts)
    ck = f"{di}|{','.join(atts)}|records"
    case = {'op': 'records', 'desc': di, 'atts': atts}
    tracts = list(d.tracts)
    want_l = [[ref_value(t, a) for a in atts] for t in tracts]
    want_d = [dict(zip(atts, row)) for row in want_l]
    try:
        forms = {
            'tracts_to_dict': (d.tracts_to_dict(*atts), want_d),
            'tracts_to_list': (d.tracts_to_list(*atts), want_l),
            'iter_to_dict': (list(d.iter_to_dict(*atts)), want_d),
            'iter_to_list': (list(d.iter_to_list(*atts)), want_l),
            'tl.tracts_to_dict(list)': (d.tracts.tracts_to_dict(atts), want_d),
            'tl.tracts_to_list(list)': (d.tracts.tracts_to_list(atts), want_l),
            'tract.to_dict': ([t.to_dict(*atts) for t in tracts], want_d),
            'tract.to_list': ([t.to_list(atts) for t in tracts], want_l),
        }
    except Exception as e:  # noqa
        acc.case(ck, 'EXC')
        acc.violation('records_exception', f"C19:records_exception:{ck}", case, got=f"{type(e).__name__}: {e}")
        return
    acc.case(ck, repr(want_l))
    acc.states += 1
    acc.transitions += 1
    for name, (got, want) in forms.items():
        if got != want:
            acc.violation('records', f"C19:records:{name}:{ck}", case, got=repr(got)[:300], exp=repr(want)[:300], note=name)
            return
    acc.guard('records_ok')


def sweep_stale_scratch(max_age_s=3600):
    """Workers are killed, not joined, so their atexit clean-up does not always run: drop scratch directories of earlier runs."""
    import time
    work = os.path.join(VERIF, '.work')
    try:
        names = os.listdir(work)
    except OSError:
        return
    now = time.time()
    for n in names:
        d = os.path.join(work, n)
        try:
            if n.startswith('c19_') and now - os.path.getmtime(d) > max_age_s:
                shutil.rmtree(d, True)
        except OSError:
            pass


def units(tier):
    sweep_stale_scratch()
    us = []
    n_atts = 27 + len(UNKNOWN)
    for di in range(len(TEXTS)):
        for a0 in range(n_atts):
            us.append({'desc': di, 'a0': a0})
    return us


def space(tier):
    return {'bound': f"{len(TEXTS)} descriptions; attribute tuples of length <= {2 if tier == 'quick' else 3} over 29 names; "
                     f"{len(HDRS)} header options x {len(MODES)} mode/pre-existing combinations x 6 writer variants "
                     "(triples: header none/true, mode w and a+existing, writers csv and tw)",
            'caps_hit': []}


WRITERS = ['csv', 'tw', 'tl', 'tw_uid', 'tw_plus', 'tw_both']


def run_unit(unit, tier):
    acc = Acc()
    di, a0 = unit['desc'], unit['a0']
    A = ATTS
    tuples = [(A[a0],)] + [(A[a0], b) for b in A if b != A[a0]] + [(A[a0], A[a0])]
    for atts in tuples:
        records_case(acc, di, atts)
        for hname in HDRS:
            for mode, pre in MODES:
                for writer in WRITERS:
                    if writer in ('tl', 'tw_uid', 'tw_plus', 'tw_both') and len(atts) > 1 and hname in ('list', 'dict'):
                        continue
                    csv_case(acc, di, atts, hname, mode, pre, writer)
    if tier == 'thorough':
        for b in A:
            for c in A:
                if len({A[a0], b, c}) < 3:
                    continue
                atts = (A[a0], b, c)
                if di < 3:
                    records_case(acc, di, atts)
                for hname in ('none', 'true'):
                    for mode, pre in (('w', False), ('a', True)):
                        for writer in ('csv', 'tw'):
                            csv_case(acc, di, atts, hname, mode, pre, writer)
    return acc.result()


def replay(case):
    acc = Acc()
    if case['op'] == 'csv':
        csv_case(acc, case['desc'], tuple(case['atts']), case['hdr'], case['mode'], case['pre'], case['writer'])
    else:
        records_case(acc, case['desc'], tuple(case['atts']))
    return acc.viol


def guards(info):
    g = info['guards']
    out = []
    for name in ('csv_ok', 'multiline_cell', 'records_ok'):
        if not g.get(name):
            out.append(f"never observed: {name}")
    return out
