"""
C07 - aliquot spelling does not matter and preprocessing is a fixed point.

Chains of 1..3 aliquot components x an independent documented spelling per component x joiner
x configuration on the real Tract: the preprocessed text must be the canonical one, lots/aliquots
must equal those of the canonical text, and preprocessing / parsing the canonical text again must
change nothing.  Plus the bare-quarter clause ('NE' alone / after a half / after a quarter / after
prose, with and without clean_qq).
"""
import itertools
import warnings

from ..core import Acc, import_pytrs

ID = 'C07'
LEVEL = 'model_checking'
TECHNIQUE = ('bounded exhaustive enumeration of component chains x per-component spellings x joiners x configurations on the real '
             'Tract preprocessor/parser; oracle: canonical text, equality with the canonical text\'s result, fixed point')
LEVEL_TEXT = ('All chains of length <= 2 with the full product of 66 spellings (the documented ones plus spaced, lower-case and word + symbol forms), all chains of length 3 with <= 1 (quick) '
              'non-default spelling / the full product (thorough), x 7 joiners (incl. upper-case OF THE) x 4 configurations; every case is compared with the '
              'canonical rendering of the same chain under the same configuration and re-fed to the preprocessor. The bare-quarter '
              'clause is enumerated over all quarters x halves x 6 contexts (incl. a half that is itself glued to a preceding component) x clean_qq. Spelling bugs are local to one component and '
              'its neighbours (look-behind / look-ahead guards, regex order), so length 3 covers every neighbourhood.')
LEVEL_NOTE = ('A second family takes the systematic product letter form (7-9 per component, three cases) x gap x fraction form (10) - 856 '
              'spellings - each alone and next to every canonical component on either side. Trusted: the spelling table (taken from the statement and the comments of pytrs/parser/rgxlib/aliquots.py). The empty '
              'joiner is only combined with a left spelling that ends in a digit or fraction sign.')
RULE = (
    "state = (chain, spelling index per component, joiner, configuration); transitions append a component / deviate a spelling or "
    "the joiner; canonicalised by (rendered text, configuration); every state is executed. Non-trivial = every distinct "
    "(text, configuration) whose text differs from the canonical text."
)
ASSUMPTIONS = [
    "chains longer than 3 and mixed joiners inside one chain are not explored",
]

SP = {
    'N': ['N/2', 'N2', 'N½', 'N 1/2', 'North Half', 'N. 1/2', 'No. 1/2', 'North One Half', 'north half', 'N /2', 'N ½', 'n½', 'North ½'],
    'S': ['S/2', 'S2', 'S½', 'S 1/2', 'South Half', 'So. Half', 'S ½', 's½'],
    'E': ['E/2', 'E2', 'E½', 'E 1/2', 'East Half'],
    'W': ['W/2', 'W2', 'W½', 'W 1/2', 'West Half'],
    'NE': ['NE/4', 'NE4', 'NE¼', 'NE 1/4', 'Northeast Quarter', 'North East Quarter', 'North East One Quarter',
           'N.E. 1/4', 'NE /4', 'Northeast One-Quarter', 'northeast quarter', 'NE ¼', 'ne¼', 'Northeast ¼', 'North East ¼'],
    'NW': ['NW/4', 'NW4', 'NW¼', 'NW 1/4', 'Northwest Quarter', 'North West Quarter'],
    'SE': ['SE/4', 'SE4', 'SE¼', 'SE 1/4', 'Southeast Quarter', 'South East Quarter'],
    'SW': ['SW/4', 'SW4', 'SW¼', 'SW 1/4', 'Southwest Quarter', 'South West One Quarter', 'SW ¼', 'sw¼'],
}
CANON = {'N': 'N½', 'S': 'S½', 'E': 'E½', 'W': 'W½', 'NE': 'NE¼', 'NW': 'NW¼', 'SE': 'SE¼', 'SW': 'SW¼'}
COMPS = list(SP)
JOIN = [' ', '', ' of ', ' of the ', ' OF ', ' Of The ', ' OF THE ']
CFGS = [None, 'clean_qq', 'qq_depth.1', 'clean_qq,qq_depth_min.3,break_halves']
_p = None
_base = {}


def worker_init(tier):
    global _p
    _p = import_pytrs()
    warnings.simplefilter('ignore')


def base(chain, cfg):
    k = (chain, cfg)
    if k not in _base:
        canon = ''.join(CANON[c] for c in chain)
        t = _p.Tract(canon, parse_qq=True, config=cfg)
        _base[k] = (canon, t.pp_desc, list(t.lots), list(t.qqs))
    return _base[k]


def units(tier):
    us = [{'L': 1, 'first': None}]
    for a in COMPS:
        us.append({'L': 2, 'first': [a]})
    for a in COMPS:
        for b in COMPS:
            us.append({'L': 3, 'first': [a, b]})
    us.append({'L': 0, 'first': None})     # bare-quarter clause
    for c in COMPS:
        us.append({'L': 'x', 'comp': c})       # systematic spelling product of one component, alone and next to a canonical one
    return us


def space(tier):
    return {'bound': "chains of length <= 3; full spelling product for length <= 2; length 3: "
                     + ("<= 1 non-default spelling" if tier == 'quick' else "full spelling product")
                     + f"; {len(JOIN)} joiners x {len(CFGS)} configurations; bare-quarter clause over 4 quarters x 4 halves x 5 contexts + every chain of 2-3 bare quarters after a half x 4 joiners",
            'caps_hit': []}


def spelling_choices(chain, tier):
    L = len(chain)
    if L <= 2 or tier == 'thorough':
        return itertools.product(*[range(len(SP[c])) for c in chain])
    out = [tuple(0 for _ in chain)]
    for i, c in enumerate(chain):
        for s in range(1, len(SP[c])):
            ch = [0] * L
            ch[i] = s
            out.append(tuple(ch))
    return out


# ---- the systematic product of letter forms x gap x fraction forms (statement: 'the symbols, /2 and /4, bare 2 and 4, 1/2 and 1/4,
# North Half, Northeast Quarter, North East One Quarter, with or without spaces'), in three letter cases.  One static rule: the bare
# digit fractions ('/2', '2', '/4', '4') go with the one- / two-letter abbreviations only ('N/2', 'NE4' - not 'North/2').
X_LETTERS = {
    'N': ['N', 'n', 'North', 'north', 'NORTH', 'N.', 'No.'], 'S': ['S', 's', 'South', 'south', 'SOUTH', 'S.', 'So.'],
    'E': ['E', 'e', 'East', 'east', 'EAST', 'E.'], 'W': ['W', 'w', 'West', 'west', 'WEST', 'W.'],
    'NE': ['NE', 'ne', 'Northeast', 'northeast', 'NORTHEAST', 'North East', 'north east', 'N.E.', 'NorthEast'],
    'NW': ['NW', 'nw', 'Northwest', 'North West', 'N.W.'], 'SE': ['SE', 'se', 'Southeast', 'South East', 'S.E.'],
    'SW': ['SW', 'sw', 'Southwest', 'South West', 'S.W.'],
}
X_F2 = ['/2', '2', '½', '1/2', 'Half', 'half', 'HALF', 'One Half', 'One-Half', 'one half']
X_F4 = ['/4', '4', '¼', '1/4', 'Quarter', 'quarter', 'QUARTER', 'One Quarter', 'One-Quarter', 'one quarter']
X_JOIN = {'quick': [0, 1, 2, 6], 'thorough': list(range(len(JOIN)))}
X_CFGS = {'quick': [None, 'clean_qq'], 'thorough': CFGS}


def x_forms(c):
    fr = X_F2 if c in ('N', 'S', 'E', 'W') else X_F4
    out = []
    for letters in X_LETTERS[c]:
        for gap in ('', ' '):
            for f in fr:
                if f in ('/2', '2', '/4', '4') and letters.upper() != c:
                    continue
                out.append(letters + gap + f)
    return out


def judge(acc, chain, sp, ji, cfg, seen):
    parts = [SP[c][s] for c, s in zip(chain, sp)]
    judge_parts(acc, chain, parts, list(sp), ji, cfg, seen)


def judge_parts(acc, chain, parts, sp, ji, cfg, seen):
    j = JOIN[ji]
    if j == '':
        # glued components are only documented for spellings that end in a digit / fraction sign
        if any(not p[-1] in '24½¼' for p in parts[:-1]):
            return
    text = j.join(parts)
    key = f"{cfg}|{text}"
    if key in seen:
        return
    seen.add(key)
    canon, b_pp, b_lots, b_qqs = base(chain, cfg)
    case = {'chain': list(chain), 'sp': list(sp) if sp is not None else None, 'parts': parts, 'join': ji, 'cfg': cfg, 'text': text}
    try:
        t = _p.Tract(text, parse_qq=True, config=cfg)
        pp, lots, qqs = t.pp_desc, list(t.lots), list(t.qqs)
        pre1 = t.preprocess()
        t2 = _p.Tract(pp, parse_qq=True, config=cfg)
        pre2 = _p.Tract(pre1, config=cfg).preprocess()
    except Exception as ex:  # noqa
        acc.case(key, 'EXC')
        acc.violation('exception', f"C07:exception:{key}", case, got=f"{type(ex).__name__}: {ex}")
        return
    acc.case(key, [pp, qqs], nontrivial=text != canon)
    acc.states += 1
    if b_pp != canon:
        acc.violation('canonical_not_fixed_point', f"C07:canonical_not_fixed_point:{cfg}:{canon}", case, got=b_pp, exp=canon)
        return
    if pp != canon:
        acc.violation('not_canonical', f"C07:not_canonical:{key}", case, got=pp, exp=canon)
        return
    if lots != b_lots or qqs != b_qqs:
        acc.violation('result_differs_from_canonical', f"C07:result_differs_from_canonical:{key}", case,
                      got=[lots, qqs], exp=[b_lots, b_qqs])
        return
    if pre1 != pp:
        acc.violation('preprocess_differs_from_parse', f"C07:preprocess_differs_from_parse:{key}", case, got=pre1, exp=pp)
        return
    if t2.pp_desc != pp or list(t2.qqs) != qqs or list(t2.lots) != lots or pre2 != pre1:
        acc.violation('not_fixed_point', f"C07:not_fixed_point:{key}", case, got=[t2.pp_desc, list(t2.qqs), pre2], exp=[pp, qqs, pre1])
        return
    if text != canon:
        acc.guard('normalised')
    if not qqs:
        acc.violation('no_aliquots', f"C07:no_aliquots:{key}", case, got=qqs)


QUARTERS = ['NE', 'NW', 'SE', 'SW']
HALVES = ['N', 'S', 'E', 'W']


def bare_cases():
    """-> list of (text, cfg, expected pp_desc substring, expects_quarter_as_aliquot)"""
    out = []
    for q in QUARTERS:
        for clean in (False, True):
            out.append((q, clean, CANON[q] if clean else q, clean, 'alone'))
            out.append((f"lying in the {q}", clean, None, clean, 'prose'))
            for q2 in QUARTERS:
                out.append((f"{SP[q2][0]} {q}", clean, (CANON[q2] + CANON[q]) if clean else f"{CANON[q2]} {q}", clean, 'after_quarter'))
            for h in HALVES:
                for hs in (SP[h][0], SP[h][1], SP[h][2]):
                    for gap in ('', ' '):
                        out.append((f"{hs}{gap}{q}", clean, CANON[h] + CANON[q], True, 'after_half'))
    # a half followed by a chain of two or three bare quarters, in every order
    for h in HALVES:
        for hs in (SP[h][0], SP[h][1], SP[h][2]):
            for L in (2, 3):
                for qs in itertools.product(QUARTERS, repeat=L):
                    for gap in ('', ' ', ' of ', ' of the '):
                        if L == 3 and gap == ' of the ' and hs != SP[h][0]:
                            continue
                        text = hs + ''.join(gap + q for q in qs)
                        for clean in (False, True):
                            out.append((text, clean, CANON[h] + ''.join(CANON[q] for q in qs), True, 'after_half_chain'))
    # the half itself preceded by another component, glued or spaced ('NE/4N/2SW', 'S/2 N2 NE')
    for p in COMPS:
        for ps in SP[p][:3]:
            for g1 in ('', ' '):
                if g1 == '' and ps[-1] not in '24½¼':
                    continue
                for h in HALVES:
                    for hs in (SP[h][0], SP[h][1], SP[h][2]):
                        for g2 in ('', ' '):
                            for q in QUARTERS:
                                for clean in (False, True):
                                    out.append((ps + g1 + hs + g2 + q, clean, CANON[p] + CANON[h] + CANON[q], True, 'after_prefixed_half'))
    return out


def judge_bare(acc, text, clean, exp_pp, is_aliquot, ctx):
    cfg = 'clean_qq' if clean else None
    key = f"bare|{cfg}|{text}"
    case = {'bare': True, 'text': text, 'clean': clean, 'ctx': ctx}
    try:
        t = _p.Tract(text, parse_qq=True, config=cfg)
        pp, qqs = t.pp_desc, list(t.qqs)
    except Exception as ex:  # noqa
        acc.case(key, 'EXC')
        acc.violation('exception', f"C07:exception:{key}", case, got=f"{type(ex).__name__}: {ex}")
        return
    acc.case(key, [pp, qqs])
    acc.states += 1
    acc.transitions += 1
    q = text[-2:]
    if exp_pp is not None and pp != exp_pp:
        acc.violation('bare_quarter_pp', f"C07:bare_quarter_pp:{key}", case, got=pp, exp=exp_pp)
        return
    has_q_aliquot = pp.endswith(CANON[q])
    if has_q_aliquot != is_aliquot:
        acc.violation('bare_quarter_rule', f"C07:bare_quarter_rule:{key}", case, got=[pp, qqs],
                      exp=f"'{q}' {'is' if is_aliquot else 'is not'} an aliquot here")
        return
    if ctx in ('alone', 'prose') and bool(qqs) != is_aliquot:
        acc.violation('bare_quarter_qqs', f"C07:bare_quarter_qqs:{key}", case, got=qqs)
        return
    if ctx in ('alone', 'prose', 'after_quarter', 'after_half'):
        # same description, same final setting, but on an object that went through the *other* setting first
        other = not clean
        for label, prep in (('parse(other) then parse', lambda t: t.parse(clean_qq=other)),
                            ('preprocess(other, commit) then parse', lambda t: t.preprocess(clean_qq=other, commit=True)),
                            ('config(other) then parse', lambda t: setattr(t, 'config', 'clean_qq' if other else 'clean_qq.False'))):
            try:
                t2 = _p.Tract(text)
                prep(t2)
                t2.parse(clean_qq=clean)
                got2 = [t2.pp_desc, list(t2.qqs)]
            except Exception as ex:  # noqa
                acc.violation('exception', f"C07:exception:{key}:{label}", case, got=f"{type(ex).__name__}: {ex}")
                return
            if got2 != [pp, qqs]:
                acc.violation('bare_quarter_depends_on_history', f"C07:bare_quarter_depends_on_history:{label}:{key}", case,
                              got=got2, exp=[pp, qqs], note=label)
                return
    if ctx == 'after_half_chain':
        canon_qqs = list(_p.Tract(exp_pp, parse_qq=True, config=cfg).qqs)
        if qqs != canon_qqs:
            acc.violation('bare_quarter_chain_qqs', f"C07:bare_quarter_chain_qqs:{key}", case, got=qqs, exp=canon_qqs)
            return
    acc.guard('bare_' + ctx + ('_clean' if clean else ''))


def run_unit(unit, tier):
    acc = Acc()
    if unit['L'] == 0:
        for text, clean, exp_pp, is_al, ctx in bare_cases():
            judge_bare(acc, text, clean, exp_pp, is_al, ctx)
        return acc.result()
    seen = set()
    if unit['L'] == 'x':
        c = unit['comp']
        for form in x_forms(c):
            for cfg in X_CFGS[tier]:
                acc.transitions += 1
                judge_parts(acc, (c,), [form], None, 0, cfg, seen)
                for n in COMPS:
                    for ji in X_JOIN[tier]:
                        judge_parts(acc, (c, n), [form, CANON[n]], None, ji, cfg, seen)
                        judge_parts(acc, (n, c), [CANON[n], form], None, ji, cfg, seen)
                        acc.transitions += 2
        acc.guard('x_product')
        return acc.result()
    first = tuple(unit['first'] or ())
    for tail in itertools.product(COMPS, repeat=unit['L'] - len(first)):
        chain = first + tail
        for sp in spelling_choices(chain, tier):
            for ji in range(len(JOIN)):
                if len(chain) == 1 and ji > 0:
                    continue
                for cfg in CFGS:
                    acc.transitions += 1
                    judge(acc, chain, tuple(sp), ji, cfg, seen)
    return acc.result()


def replay(case):
    acc = Acc()
    if case.get('bare'):
        for text, clean, exp_pp, is_al, ctx in bare_cases():
            if text == case['text'] and clean == case['clean'] and ctx == case['ctx']:
                judge_bare(acc, text, clean, exp_pp, is_al, ctx)
    elif case.get('sp') is None and case.get('parts'):
        judge_parts(acc, tuple(case['chain']), list(case['parts']), None, case['join'], case['cfg'], set())
    else:
        judge(acc, tuple(case['chain']), tuple(case['sp']), case['join'], case['cfg'], set())
    return acc.viol


def guards(info):
    g = info['guards']
    out = []
    for name in ('normalised', 'bare_alone', 'bare_alone_clean', 'bare_after_half', 'bare_after_quarter', 'bare_prose_clean', 'bare_after_half_chain', 'x_product'):
        if not g.get(name):
            out.append(f"never observed: {name}")
    return out
