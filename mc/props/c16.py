"""
C16 - parsing time stays bounded on any input of ordinary size.

Pumping families  prefix + unit^n + suffix  (n doubling up to the length bound) for every unit
from an alphabet that is *derived from the compiled regex patterns at run time* plus a list of
short tokens, in 12 contexts x 7 suffixes; thorough adds all two-unit alternations; both tiers
add structural repetition.  Each text is parsed by the real PLSSDesc(text, parse_qq=True) in a
worker; CPU time is measured inside, a hard deadline is enforced by the parent (kill + respawn,
re-run once in a fresh worker before a timeout is believed).
"""
import re
import time
import warnings

from ..core import Acc, import_pytrs

ID = 'C16'
LEVEL = 'exploration'
TECHNIQUE = ('exhaustive enumeration of pumping families (unit alphabet derived from the regex patterns) x contexts x suffixes x '
             'doubling lengths up to a bound, CPU-time oracle in killable isolated workers')
LEVEL_TEXT = ('Every unit of a run-time derived alphabet (every literal character and character-class member of every compiled '
              'pattern in pytrs.parser.rgxlib, plus ~45 short tokens) is pumped in 15 contexts x 8 suffixes (and, as a bare Tract, in 7 x 4 contexts) with n = 4, 8, 16, ... up to '
              '300 (quick) / 600 (thorough) characters; thorough adds all two-unit alternations; 39 structural families (repeated '
              'Twp/Rge lines, section headers, lots, lists, aliquots, chains; ranges with k-digit end points and repeated maximal ranges, '
              'whose expansion is large although the text is short), whitespace runs around every pattern word, and every short token '
              'sequence in every order (PLSSDesc and Tract) are included. The oracle is a measured resource '
              '(CPU seconds), so this is labelled exploration rather than model checking; the enumeration itself is exhaustive '
              'within the stated family bound.')
LEVEL_NOTE = ('Trusted: time.process_time() inside the worker and the parent-side kill deadline. Super-linear behaviour that needs '
              'three or more distinct alternating units, or a context outside the 12 prefixes, is not covered. Threshold: 2.0 s CPU.')
RULE = (
    "case = (mode, prefix, unit or unit pair, suffix, n); n doubles from 4 until the text exceeds the length bound; each case is "
    "one timed execution of PLSSDesc(text, parse_qq=True). Non-trivial = every distinct text (texts are deduplicated per family). "
    "A case violates when its CPU time (minimum of 3 runs when within 50 % of the limit) exceeds 2.0 s or the worker has to be killed at the deadline twice."
)
ASSUMPTIONS = [
    "CPU time of a single-threaded worker is a faithful proxy for 'takes more than a couple of seconds'",
    "pumping a single unit or an alternation of two units in 12 contexts reaches the super-linear behaviours of the patterns",
]
LIMIT = 2.0
MAXLEN = {'quick': 300, 'thorough': 600}
UNIT_DEADLINE = {'quick': 25.0, 'thorough': 40.0}
MAX_TIMEOUTS = 4
SKIP_DETERMINISM = True     # timings are not bit-reproducible; the enumeration digest is seed-independent instead

PREFIXES = [
    '',
    'T154N-R97W ',
    'T154N-R97W Sec 14',
    'T154N-R97W Sec 14: ',
    'T154N-R97W Sec 14: Lot 1',
    'T154N-R97W Sec 14: N/2',
    'Township 154 North, Range 97 West, of the 5th ',
    'T154N-R97W Sec 14: That part of the ',
    'T154N-R97W Sec 14: Lot 1 (',
    'T154N-R97W Sec 14: Lot 1 [',
    'Section 4',
    'NE/4 of Section 4',
    'T154N-R97W Sec 14: N/2N/2NE/4 of',
    'Township 154 North',            # a township whose range is still to come (or never comes)
    'Sec 14: NE/4, T154N',
    'T154N-R97W of',                 # a Twp/Rge followed by the filler words that may lead up to a P.M. designation
    'NE/4 of Section 14, Township 154 North, Range 97 West of the',
]
# Tract-level pumping (the Tract sees its text raw: whitespace runs are not reduced as in a PLSSDesc)
TRACT_PREFIXES = ['', 'N/2', 'N/2N/2NE/4 of', 'Lot 1', 'N/2 of Lot 1', 'N½' * 20 + ' of', 'NE']
TRACT_SUFFIXES = ['', ' x', ' NE/4', ' Lot 2']
SUFFIXES = ['', ' x', ' P.M.', ': NE/4', ' Sec 15: Lot 2, T155N-R97W', ' T155N-R97W: NE/4', ', T155N-R97W', 'Range 97, Section 14: NE/4']
TOKENS = ['. ', ', ', '; ', ': ', '- ', ' - ', 'and ', ' and ', '& ', ' of ', ' the ', ' of the ', ' to ', ' thru ', ' through ',
          'Sec ', 'Sec. ', 'Section ', '1 ', '1, ', '14 ', '1 - ', 'Lot ', 'Lots ', 'Lot 1 ', 'L1 ', 'N/2', 'N/2 ', 'NE', 'NE ', 'NE/4',
          'N½', 'NE¼', 'North ', 'Half ', 'Quarter ', 'T154N-R97W\n', 'T154N ', 'R97W ', '154N ', 'P.M. ', 'PM', '(40.00) ', '( ', '[ ',
          'ALL ', 'well ', 'less ', 'incl ', 'in so far ', 'only ', '\n\n', ' \t', '\r\n']
MODES = {'quick': [None], 'thorough': [None, 'clean_qq', 'segment,sec_within', 'ocr_scrub,sec_colon_cautious']}

_p = None
_ALPHABET = None


def derive_alphabet():
    """Every literal character and character-class member of every compiled pattern in pytrs.parser.rgxlib."""
    import importlib
    import pkgutil
    import re._parser as sre_parse
    import re._constants as C
    import pytrs.parser.rgxlib as rgxlib
    chars = set()
    runs = set()

    def walk(sub):
        run = ''
        for op, av in list(sub) + [(None, None)]:
            if op is C.LITERAL:
                run += chr(av)
            else:
                if 2 <= len(run) <= 12:
                    runs.add(run.lower())
                run = ''
        # 'skeletons': literal runs that continue across optional elements (min repeat 0) and across repeated single
        # literals (min repeat >= 1), e.g. 'pm' from  P\.?\s{0,10}M\.?
        run = ''
        for op, av in list(sub) + [(None, None)]:
            if op is C.LITERAL:
                run += chr(av)
            elif op in (C.MAX_REPEAT, C.MIN_REPEAT) and av[0] == 0:
                continue
            elif op in (C.MAX_REPEAT, C.MIN_REPEAT) and av[0] >= 1 and len(av[2]) == 1 and av[2][0][0] is C.LITERAL:
                run += chr(av[2][0][1])
            else:
                if 2 <= len(run) <= 12:
                    runs.add(run.lower())
                run = ''
        for op, av in sub:
            if op is C.LITERAL or op is C.NOT_LITERAL:
                chars.add(chr(av))
            elif op is C.IN:
                for o2, a2 in av:
                    if o2 is C.LITERAL:
                        chars.add(chr(a2))
                    elif o2 is C.RANGE:
                        chars.add(chr(a2[0]))
                        chars.add(chr(a2[1]))
                    elif o2 is C.CATEGORY:
                        cat(a2)
            elif op is C.CATEGORY:
                cat(av)
            elif op is C.BRANCH:
                for s in av[1]:
                    walk(s)
            elif op is C.SUBPATTERN:
                walk(av[3])
            elif op in (C.MAX_REPEAT, C.MIN_REPEAT, getattr(C, 'POSSESSIVE_REPEAT', None)):
                walk(av[2])
            elif op in (C.ASSERT, C.ASSERT_NOT):
                walk(av[1])
            elif op is getattr(C, 'ATOMIC_GROUP', None):
                walk(av)
            elif op is C.GROUPREF_EXISTS:
                walk(av[1])
                if av[2]:
                    walk(av[2])

    def cat(c):
        if c in (C.CATEGORY_DIGIT, C.CATEGORY_NOT_DIGIT):
            chars.update('1')
        if c in (C.CATEGORY_SPACE, C.CATEGORY_NOT_SPACE):
            chars.update(' \t\n')
        if c in (C.CATEGORY_WORD, C.CATEGORY_NOT_WORD):
            chars.update('a')

    pats = 0
    for m in pkgutil.iter_modules(rgxlib.__path__):
        mod = importlib.import_module(rgxlib.__name__ + '.' + m.name)
        for name, val in vars(mod).items():
            if isinstance(val, re.Pattern):
                pats += 1
                walk(sre_parse.parse(val.pattern, val.flags))
    # case-insensitive patterns: fold to a canonical case to keep the alphabet small, keep both for a few letters
    folded = set()
    for c in chars:
        folded.add(c.lower() if c.isalpha() else c)
    derive_alphabet.runs = sorted(runs)
    return sorted(folded), pats


def alphabet():
    global _ALPHABET
    if _ALPHABET is None:
        _ALPHABET = derive_alphabet()
    return _ALPHABET


def all_units():
    chars, _ = alphabet()
    us = list(chars)
    us += [c + ' ' for c in chars if not c.isspace()]
    for t in TOKENS:
        if t not in us:
            us.append(t)
    # maximal literal runs of the patterns ('well', 'except', 'section', ...), glued and blank-separated
    for r in getattr(derive_alphabet, 'runs', []):
        for u in (r, r + ' '):
            if u not in us:
                us.append(u)
    # every ordered pair of aliquot components (quarter-before-half orders included) and every single component
    comps = ['N/2', 'S/2', 'E/2', 'W/2', 'NE/4', 'NW/4', 'SE/4', 'SW/4']
    for a in comps:
        for b in comps:
            for u in (a + b, a + b + ' ', a + ' of the ' + b + ', '):
                if u not in us:
                    us.append(u)
    return us


def punct_units():
    """literal run + punctuation character (' thru.', ' sec,', 'lot;' ...): a word of a pattern directly followed by a
    character that the same patterns also accept on its own.  Pumped in a reduced set of contexts."""
    chars, _ = alphabet()
    punct = [c for c in chars if not c.isalnum() and not c.isspace()]
    out = []
    for r in getattr(derive_alphabet, 'runs', []):
        if not r.isalpha():
            continue
        for c in punct:
            out.append(' ' + r + c)
            out.append(r + c + ' ')
    return out


WS_UNITS = [' ', '\n', '\t', ' \n', '\n ', '\r\n', '\xa0', '\x0c', '\x0b', '\n \n', '\u2003']


def keyword_runs():
    """alphabetic literal runs of the patterns (the words the library reacts to: 'well', 'surface', 'except', 'section' ...)"""
    alphabet()
    return [r for r in getattr(derive_alphabet, 'runs', []) if r.isalpha() and len(r) >= 3]


# short token sequences (every order), joined by ordinary and by unusual whitespace: loops that do not terminate (or blow up) on a
# particular *order* of components rather than on a long input
SOUP_WS = [' ', '\n', '\n \n', ' \n ', '\xa0', '\t\t']
TRACT_TOKENS = ['N/2', 'NE/4', 'E/2', 'W/2', 'S/2', 'SW/4', 'NE', 'Lot 1', 'Lots 1 - 3', 'L2', 'of', 'the', 'ALL', '(40.00)', 'and', ',', ';',
                'N½', 'SE¼']
TRACT_CFGS = [None, 'clean_qq', 'break_halves,qq_depth_min.3', 'qq_depth.1', 'suppress_lot_divs,clean_qq,qq_depth_max.2']
SOUP_DEPTH = {'quick': 3, 'thorough': 4}


def worker_init(tier):
    global _p
    _p = import_pytrs()
    warnings.simplefilter('ignore')


def units(tier):
    import sys
    import_pytrs()      # the alphabet is derived from the tree under test (parent only reads patterns)
    us = []
    allu = all_units()
    for mode in MODES[tier]:
        for pi in range(len(PREFIXES)):
            for u in allu:
                us.append({'k': 'pump', 'mode': mode, 'p': pi, 'u': [u]})
    if tier == 'thorough':
        toks = [u for u in allu if len(u) > 1 or u in ' \t\n.,;:-&()[]/'][:80]
        for pi in (1, 2, 4, 5, 6, 7):
            for a in toks:
                us.append({'k': 'pump2', 'mode': None, 'p': pi, 'a': a, 'bs': toks})
    for u in punct_units():
        us.append({'k': 'pump_punct', 'mode': None, 'u': [u]})
    for u in allu:
        us.append({'k': 'pump_tract', 'mode': None, 'u': [u]})
    for kw in keyword_runs():
        us.append({'k': 'ws_kw', 'mode': None, 'kw': kw})
    from .. import soup
    for i in range(len(soup.V)):
        us.append({'k': 'soup_ws', 'mode': None, 'first': i})
    for i in range(len(TRACT_TOKENS)):
        us.append({'k': 'tract_soup', 'mode': None, 'first': i})
    for mode in MODES[tier]:
        for name in STRUCT_FAMILIES:
            if name in VOLUME_FAMILIES and mode is not None:
                continue
            us.append({'k': 'struct', 'mode': mode, 'name': name})
    us.append({'k': 'nested_halves'})
    return us


def space(tier):
    chars, pats = alphabet()
    return {'bound': f"texts <= {MAXLEN[tier]} characters; {len(all_units())} units ({len(chars)} characters derived from {pats} "
                     f"compiled patterns) x {len(PREFIXES)} prefixes x {len(SUFFIXES)} suffixes x doubling n; the same units pumped in a bare Tract "
                     f"({len(TRACT_PREFIXES)} prefixes x {len(TRACT_SUFFIXES)} suffixes x 2 configurations); "
                     f"plus {len(punct_units())} 'pattern word + punctuation' units in 5 contexts x 3 suffixes; {len(keyword_runs())} pattern words x "
                     f"{len(WS_UNITS)} whitespace units (runs of 1..30 before / after the word); every sequence of <= 3 of the 29 vocabulary tokens x "
                     f"{len(SOUP_WS)} joiners; every sequence of <= {SOUP_DEPTH[tier]} of {len(TRACT_TOKENS)} tract tokens x {len(TRACT_CFGS)} configurations (Tract); {len(STRUCT_FAMILIES)} structural "
                     f"families (repetition, wide and maximal ranges); "
                     f"modes {MODES[tier]}; CPU limit {LIMIT}s",
            'caps_hit': []}


def timed(text, mode, tract=False):
    t0 = time.process_time()
    if tract:
        _p.Tract(text, trs='154n97w14', parse_qq=True, config=mode)
    else:
        _p.PLSSDesc(text, parse_qq=True, config=mode)
    return time.process_time() - t0


def measure(acc, fam, text, mode, tract=False):
    """-> seconds (min of up to 3) ; records case and violation"""
    key = f"{'tract|' if tract else ''}{mode}|{text}"
    try:
        dt = timed(text, mode, tract)
        if LIMIT < dt < 1.5 * LIMIT:       # borderline: take the minimum of three runs
            dt = min(dt, timed(text, mode, tract), timed(text, mode, tract))
    except Exception as e:  # noqa  (totality is C03's subject; time still counts)
        dt = -1.0
        acc.extra['exceptions_ignored'] += 1
    acc.n += 1
    acc.nontrivial += 1
    from ..core import h64
    acc.keysum = (acc.keysum + h64(key)) & 0xFFFFFFFFFFFFFFFF
    acc.outcomes.add(int(dt * 1000) if dt < 0.02 else 20 + int(dt * 20))
    if len(acc.samples) < 2:
        acc.samples.append({'mode': mode, 'text': text[:120], 'len': len(text), 'cpu_s': round(dt, 4)})
    if dt > LIMIT:
        acc.violation('too_slow', f"C16:too_slow:{fam}", {'mode': mode, 'text': text, 'tract': tract}, got=round(dt, 2), exp=f"<= {LIMIT}s",
                      note=f"{len(text)} characters")
    return dt


def pump_family(acc, tier, mode, pi, unit_seq, si):
    pre, suf = PREFIXES[pi], SUFFIXES[si]
    body = ''.join(unit_seq)
    fam = f"{mode}|p{pi}|{body!r}|s{si}"
    room = MAXLEN[tier] - len(pre) - len(suf)
    mmax = room // max(1, len(body))
    ns = []
    n = 4
    while n < mmax:
        ns.append(n)
        n *= 2
    if mmax >= 1:
        ns.append(mmax)
    series = []
    for n in ns:
        text = pre + body * n + suf
        dt = measure(acc, fam, text, mode)
        series.append((len(text), dt))
        if dt > LIMIT:
            break
    if series and series[-1][1] > 0.05:
        acc.notes.append({'family': fam, 'series': [(a, round(b, 4)) for a, b in series]})
    return series


STRUCT_FAMILIES = {
    'twprge_lines': lambda k: '\n'.join(['T154N-R97W'] * k),
    'twprge_lines_sec': lambda k: '\n'.join(['T154N-R97W Sec 14: NE/4'] * k),
    'twprge_distinct_lines': lambda k: '\n'.join(f"T{100 + i}N-R97W Sec {1 + i % 36}: NE/4" for i in range(k)),
    'sec_headers': lambda k: 'T154N-R97W ' + ' '.join(f"Sec {1 + i % 36}: NE/4," for i in range(k)),
    'lots': lambda k: 'T154N-R97W Sec 14: ' + ', '.join(f"Lot {i + 1}" for i in range(k)),
    'lot_list': lambda k: 'T154N-R97W Sec 14: Lots ' + ', '.join(str(i + 1) for i in range(k)),
    'lot_ranges': lambda k: 'T154N-R97W Sec 14: Lots ' + ', '.join(f"{i + 1} - {i + 2}" for i in range(k)),
    'sec_list': lambda k: 'T154N-R97W Secs ' + ', '.join(str(1 + i % 36) for i in range(k)) + ': NE/4',
    'sec_ranges': lambda k: 'T154N-R97W Secs ' + ', '.join(f"{1 + i % 30} - {3 + i % 30}" for i in range(k)) + ': NE/4',
    'aliquots': lambda k: 'T154N-R97W Sec 14: ' + ', '.join(['NE/4', 'N/2SW/4', 'W/2'][i % 3] for i in range(k)),
    'chain': lambda k: 'T154N-R97W Sec 14: ' + 'N/2' * k + 'NE/4',
    'chain_words': lambda k: 'T154N-R97W Sec 14: ' + ' of the '.join(['North Half'] * k) + ' of the Northeast Quarter',
    'desc_str_lines': lambda k: '\n'.join(f"NE/4 of Section {1 + i % 36}, T154N-R97W" for i in range(k)),
    'acreages': lambda k: 'T154N-R97W Sec 14: Lots ' + ', '.join(f"{i + 1}(40.{i % 100:02d})" for i in range(k)),
    'pm_lines': lambda k: '\n'.join(['Township 154 North, Range 97 West of the 5th P.M.'] * k),
    'warnings': lambda k: 'T154N-R97W Sec 14: NE/4 ' + ' '.join(['less and except the well', 'including depths', 'insofar only'][i % 3] for i in range(k)),
    'no_ns_lines': lambda k: '\n'.join(['T154-R97 Sec 14: NE/4'] * k),
    # ranges whose *expansion* is large although the text is short: one range with a k-digit end point, and k maximal ranges
    'lot_range_wide': lambda k: 'T154N-R97W Sec 14: Lots 1 - ' + '9' * k,
    'lot_range_wide_desc': lambda k: 'T154N-R97W Sec 14: Lots ' + '9' * k + ' - 1',
    'lot_range_wide_L': lambda k: 'T154N-R97W Sec 14: L1-' + '9' * k + ', NE/4',
    'sec_range_wide': lambda k: 'T154N-R97W Secs 1 - ' + '9' * k + ': NE/4',
    'sec_range_wide_desc': lambda k: 'T154N-R97W Secs ' + '9' * k + ' - 1: NE/4',
    'lot_ranges_max': lambda k: 'T154N-R97W Sec 14: ' + 'L1-999,' * k,
    'lot_ranges_max_words': lambda k: 'T154N-R97W Sec 14: Lots ' + ', '.join(['1 - 999'] * k),
    'lot_ranges_max_desc': lambda k: 'T154N-R97W Sec 14: ' + ', '.join(['Lots 999 - 1'] * k),
    'lot_div_ranges_max': lambda k: 'T154N-R97W Sec 14: ' + ', '.join(['N/2 of Lots 1 - 999'] * k),
    'sec_ranges_max': lambda k: 'T154N-R97W Secs ' + ', '.join(['1 - 99'] * k) + ': NE/4',
    'sec_ranges_36': lambda k: 'T154N-R97W Secs ' + ', '.join(['1 - 36'] * k) + ': Lots 1 - 99, ALL',
    'aliquot_dups': lambda k: 'T154N-R97W Sec 14: ' + 'NE/4, ' * k,
    'twprge_secs': lambda k: '\n'.join(['T154N-R97W Secs 1 - 36: ALL'] * k),
    # lists in which the keyword is repeated before every number, followed by another Twp/Rge (context checks run on them)
    'sec_kw_repeated_dot': lambda k: 'T154N-R97W ' + ', '.join(f"Sec. {1 + i % 36}" for i in range(k)) + ': NE/4\nT155N-R97W Sec. 1: SW/4',
    'sec_kw_repeated': lambda k: 'T154N-R97W ' + ', '.join(f"Sec {1 + i % 36}" for i in range(k)) + ': NE/4\nT155N-R97W Sec 1: SW/4',
    'sec_kw_repeated_word': lambda k: 'T154N-R97W ' + ' and '.join(f"Section {1 + i % 36}" for i in range(k)) + ': NE/4, T155N-R97W',
    'sec_kw_repeated_plural': lambda k: 'T154N-R97W ' + ', '.join(f"Secs. {1 + i % 30} - {3 + i % 30}" for i in range(k)) + ': NE/4 T155N-R97W',
    'sect_kw_repeated': lambda k: ', '.join(f"Sect. {1 + i % 36}" for i in range(k)) + ': NE/4, T155N-R97W',
    'lot_kw_repeated_dot': lambda k: 'T154N-R97W Sec 14: ' + ', '.join(f"L. {i + 1}" for i in range(k)) + ', NE/4',
    'lot_kw_repeated_lt': lambda k: 'T154N-R97W Sec 14: ' + ' and '.join(f"Lt. {i + 1}" for i in range(k)),
}
# families whose *answer* is very large: k maximal three-digit section ranges (999 tracts each), and section ranges x lot ranges
# (the lots of every tract are expanded).  Their cost does not depend on the mode; they are run under the default mode only.
VOLUME_FAMILIES = {
    'sec_ranges_999': lambda k: 'T154N-R97W Sections ' + ', '.join(['1-999'] * k) + ': NE/4',
    'sec_x_lot_ranges': lambda k: 'T154N-R97W Secs ' + ', '.join(['1 - 99'] * max(1, k // 3)) + ': ' + ', '.join(['Lots 1 - 999'] * k),
}
STRUCT_FAMILIES.update(VOLUME_FAMILIES)
VOLUME_PROBE_K = {'sec_ranges_999': 30, 'sec_x_lot_ranges': 15}
NESTED_HALVES_PROBE_K = 21


def structural(acc, tier, mode, name):
    L = MAXLEN[tier]
    f = STRUCT_FAMILIES[name]
    fam = f"{mode}|struct|{name}"
    k = 1
    series = []
    seen = set()
    if name in VOLUME_FAMILIES:
        # one probe per family, a little beyond the point where the answer alone costs the limit (the full-length texts are the
        # known findings and are replayed separately): keeps this unit far away from the worker deadline on a loaded machine
        k = VOLUME_PROBE_K[name]
    while True:
        text = f(k)
        if len(text) > L:
            break
        if text not in seen:
            seen.add(text)
            dt = measure(acc, fam, text, mode)
            series.append((len(text), dt))
            if dt > LIMIT or name in VOLUME_FAMILIES:
                break
        k += 1 if k < 4 else max(1, k // 3)
    if series:
        acc.notes.append({'family': fam, 'series': [(a, round(b, 4)) for a, b in series[-4:]]})


def run_unit(unit, tier):
    acc = Acc()
    acc.notes = []
    if unit['k'] == 'pump':
        for si in range(len(SUFFIXES)):
            pump_family(acc, tier, unit['mode'], unit['p'], unit['u'], si)
    elif unit['k'] == 'pump_punct':
        for pi in (1, 2, 3, 4, 10):
            for si in (0, 3, 5):
                pump_family(acc, tier, unit['mode'], pi, unit['u'], si)
    elif unit['k'] == 'pump_tract':
        body = ''.join(unit['u'])
        for pre in TRACT_PREFIXES:
            for suf in TRACT_SUFFIXES:
                for cfg in (None, 'clean_qq'):
                    fam = f"tract|{cfg}|{pre[:14]!r}|{body!r}|{suf!r}"
                    room = MAXLEN[tier] - len(pre) - len(suf)
                    mmax = room // max(1, len(body))
                    n = 8
                    while True:
                        n = min(n, mmax)
                        if n < 1:
                            break
                        dt = measure(acc, fam, pre + body * n + suf, cfg, tract=True)
                        if dt > LIMIT or n == mmax:
                            break
                        n *= 4
    elif unit['k'] == 'ws_kw':
        # a run of (possibly mixed) whitespace directly before / after a word that the patterns react to, at the end of the text
        # or followed by more text: scanning loops that step over whitespace must still advance
        kw = unit['kw']
        for ws in WS_UNITS:
            for pre in ('T154N-R97W Sec 14: NE/4', 'T154N-R97W Sec 14: NE/4 - Smith'):
                for cap in (kw, kw.capitalize() + 's'):
                    for tail in ('', ' x', '\nT155N-R97W Sec 15: NE/4'):
                        fam = f"{unit['mode']}|ws_kw|{ws!r}|{cap}|{pre[-5:]}|{tail[:3]!r}"
                        for n in (1, 2, 3, 5, 8, 13, 30):
                            for text in (pre + ws * n + cap + tail, pre + ' ' + cap + ws * n + tail.strip()):
                                if len(text) <= MAXLEN[tier]:
                                    dt = measure(acc, fam, text, unit['mode'])
                                    if dt > LIMIT:
                                        break
    elif unit['k'] == 'soup_ws':
        from .. import soup
        import itertools
        V = soup.V
        for L in (1, 2, 3):
            for tail in itertools.product(range(len(V)), repeat=L - 1):
                toks = [V[unit['first']]] + [V[i] for i in tail]
                for ws in SOUP_WS:
                    measure(acc, f"{unit['mode']}|soup_ws|{ws!r}", ws.join(toks), unit['mode'])
    elif unit['k'] == 'tract_soup':
        import itertools
        for L in range(1, SOUP_DEPTH[tier] + 1):
            for tail in itertools.product(range(len(TRACT_TOKENS)), repeat=L - 1):
                text = ' '.join([TRACT_TOKENS[unit['first']]] + [TRACT_TOKENS[i] for i in tail])
                for cfg in TRACT_CFGS:
                    measure(acc, f"tract|{cfg}", text, cfg, tract=True)
    elif unit['k'] == 'nested_halves':
        # a chain of k halves: one piece by default; with break_halves every half of the chain is broken into two quarters, i.e.
        # 2^k pieces (output volume, see the known findings).  One probe at the length where the answer alone costs the limit,
        # so that the memory of the worker stays bounded; all depth configurations on a chain of 12 halves.
        for cfg in (None, 'clean_qq', 'qq_depth_min.1', 'qq_depth_min.3', 'qq_depth.2', 'qq_depth_max.4,break_halves'):
            measure(acc, f"tract|{cfg}|struct|nested_halves", 'N/2' * 99 + 'NE', cfg, tract=True)
            measure(acc, f"tract|{cfg}|struct|nested_halves", 'N/2' * 12 + 'NE/4', cfg, tract=True)
        measure(acc, "break_halves|struct|nested_halves", 'N/2' * NESTED_HALVES_PROBE_K + 'NE/4', 'break_halves', tract=True)
    elif unit['k'] == 'pump2':
        for b in unit['bs']:
            if b == unit['a']:
                continue
            for si in (0, 2):
                pump_family(acc, tier, unit['mode'], unit['p'], [unit['a'], b], si)
    else:
        structural(acc, tier, unit['mode'], unit['name'])
    r = acc.result()
    r['notes'] = acc.notes[:50]
    return r


def on_unit_timeout(unit):
    sig = f"C16:timeout:{unit.get('mode')}|p{unit.get('p')}|{unit.get('u') or unit.get('a') or unit.get('name') or unit.get('kw') or unit.get('k')!r}"
    return [{'cls': 'deadline_kill', 'sig': sig, 'case': {'unit': unit}, 'got': f"worker killed at the deadline twice",
             'exp': f"every text <= {LIMIT}s", 'note': 'some text of this family never returned'}]


def replay(case):
    acc = Acc()
    acc.notes = []
    if 'text' in case:
        measure(acc, 'replay', case['text'], case.get('mode'), tract=bool(case.get('tract')))
    else:
        # a family that had to be killed: replaying it directly would hang; report it as still violating only if it
        # exceeds the limit under an alarm
        import signal

        def boom(*a):
            raise TimeoutError
        signal.signal(signal.SIGALRM, boom)
        signal.alarm(60)
        try:
            run_unit(case['unit'], 'quick')
        except TimeoutError:
            return [{'cls': 'deadline_kill', 'sig': 'replay', 'case': case}]
        finally:
            signal.alarm(0)
    return acc.viol


def evidence_extra(notes):
    import math
    worst = sorted(notes, key=lambda n: -max(b for _, b in n['series']))[:15]
    out = []
    for n in worst:
        ser = [(a, b) for a, b in n['series'] if b > 0.002]
        slope = None
        if len(ser) >= 2 and ser[-1][0] > ser[-2][0] and ser[-2][1] > 0:
            slope = round(math.log(ser[-1][1] / ser[-2][1]) / math.log(ser[-1][0] / ser[-2][0]), 2)
        out.append({'family': n['family'], 'series_len_cpu': n['series'], 'growth_exponent_last_two': slope})
    return {'slowest_families': out}


def guards(info):
    out = []
    if info['n'] < 1000:
        out.append(f"only {info['n']} timed parses")
    chars, pats = alphabet()
    if len(chars) < 40 or pats < 20:
        out.append(f"derived alphabet suspiciously small: {len(chars)} characters from {pats} patterns")
    return out
