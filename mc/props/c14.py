"""
C14 - re-parsing is idempotent and commit=False has no side effects.

Explicit-state breadth-first search on live objects: seed objects (Tract / PLSSDesc, created parsed and
unparsed) x all operation sequences up to a depth bound, with state de-duplication on a canonical
snapshot of every public attribute (results *and* settings).  Oracles on every transition:
 (1) a commit=False operation leaves the snapshot unchanged, returns what the committing call yields, and leaves a fresh
     object's replay of the same history unchanged (no side effect outside the object either);
 (2) history reduction (differential): the snapshot after history h equals the snapshot of a freshly
     constructed object on which only reduce(h) is replayed;
 (3) op;op == op for every committed operation.
"""
import copy
import warnings

from ..core import Acc, import_pytrs, jdump

ID = 'C14'
STATES_FROM_OUTCOMES = True    # distinct states = distinct snapshots over all units
LEVEL = 'model_checking'
TECHNIQUE = ('explicit-state BFS over operation sequences on live PLSSDesc / Tract objects (deepcopy branching, canonical snapshot, '
             'seen-set), with no-side-effect, history-reduction (fresh-object differential) and idempotence oracles on every transition')
LEVEL_TEXT = ('From 10 seed objects (parsed or unparsed at creation), all sequences of up to 4 (quick) / 7 (thorough) operations out of 26 '
              '(PLSSDesc) / 14 (Tract) - parse with and without commit and with keyword overrides, parse_tracts, preprocess, config '
              'assignment, sort, filter-with-drop - are explored with state merging; every transition is checked against a freshly '
              'constructed object that replays only the reduced history, so any state that leaks from an earlier parse (accumulated '
              'flags, shared dicts, stale pp_desc) is caught where it first becomes observable, which is depth 2.')
LEVEL_NOTE = ('Trusted: the reduction rule (a committed parse resets results; settings change only through config assignment) and '
              'copy.deepcopy as a faithful branch of an object (asserted on every state).')
RULE = (
    "state = canonical snapshot of the live object (all public result attributes, all settings, config text, per-tract snapshots, "
    "relative creation order of tracts) paired with the private bookkeeping attributes of the object and its tracts (the latter only "
    "prevents merging of states with different futures; oracles look at the observable snapshot alone); transition = one real "
    "method call; BFS with a seen-set. Non-trivial = every "
    "transition whose operation is enabled on the state (all are)."
)
ASSUMPTIONS = [
    "operation menu and seed objects are finite; sequences longer than the depth bound are not explored (states merge quickly, see coverage)",
]
DEPTH = {'quick': 4, 'thorough': 7}
UNIT_DEADLINE = {'quick': 60.0, 'thorough': 1200.0}   # a clean unit takes 1-3 s (quick); leaked process state can make every call slower
MAX_TIMEOUTS = 4
_p = None


def worker_init(tier):
    global _p
    _p = import_pytrs()
    warnings.simplefilter('ignore')


# ------------------------------------------------------------------ snapshots
def snap_tract(t):
    return (t.trs, t.desc, t.pp_desc, tuple(t.lots), tuple(t.qqs), tuple(sorted(t.lot_acres.items())), tuple(t.aliquots_whole),
            tuple(map(str, t.w_flags)), tuple(map(repr, t.w_flag_lines)), tuple(map(str, t.e_flags)), tuple(map(repr, t.e_flag_lines)),
            t.parse_complete, t.orig_index, t.orig_desc, repr(t.source),
            t.config.decompile_to_text(), t.clean_qq, t.suppress_lot_divs, t.qq_depth, t.qq_depth_min, t.qq_depth_max,
            t.break_halves, t.parse_qq, t.default_ns, t.default_ew, t.ocr_scrub)


def snap_desc(d):
    uids = [t._Tract__uid for t in d.tracts]
    rank = tuple(sorted(range(len(uids)), key=lambda i: uids[i]))
    return (d.orig_desc, d.pp_desc, d.current_layout, tuple(map(str, d.w_flags)), tuple(map(repr, d.w_flag_lines)),
            tuple(map(str, d.e_flags)), tuple(map(repr, d.e_flag_lines)), tuple(snap_tract(t) for t in d.tracts), rank,
            d.config.decompile_to_text(), d.layout, d.parse_qq, d.clean_qq, d.segment, d.sec_within, d.default_ns, d.default_ew,
            d.qq_depth, d.qq_depth_min, d.qq_depth_max, d.break_halves, d.ocr_scrub, d.sec_colon_required, d.sec_colon_cautious,
            d.suppress_lot_divs, d.wait_to_parse, repr(d.source), d.desc_is_flawed)


def snap(o):
    return snap_desc(o) if isinstance(o, _p.PLSSDesc) else snap_tract(o)


def hidden(o):
    """Everything in the instance dictionaries that the observable snapshot does not show (private bookkeeping
    attributes of the object and of its tracts).  Used only to keep the explorer from *merging* two states whose
    observable snapshots agree but whose futures may differ; it is never part of an oracle."""
    def h(x):
        return tuple(sorted((k, repr(v)) for k, v in vars(x).items()
                            if k.startswith('_') and not k.endswith('__uid') and not k.endswith('__trs')
                            and not k.endswith('__config')))
    if isinstance(o, _p.PLSSDesc):
        return (h(o), tuple(h(t) for t in o.tracts))
    return h(o)


def state_key(o, observable):
    return (observable, hidden(o))


# ------------------------------------------------------------------ operations
# name -> (function(obj) -> return value, kind) ; kind: 'nc' no-commit, 'parse' committed parse (reset point),
# 'cfg' config assignment, 'post' committed op that acts on the current results
def even_sec(t):
    return bool(t.sec_num) and t.sec_num % 2 == 0


PLSS_OPS = {
    'parse()': (lambda d: d.parse(), 'parse'),
    'parse(commit=False)': (lambda d: d.parse(commit=False), 'nc'),
    'parse(commit=False,segment,parse_qq=False)': (lambda d: d.parse(commit=False, segment=True, parse_qq=False), 'nc'),
    'parse(commit=False,layout=copy_all)': (lambda d: d.parse(commit=False, layout='copy_all'), 'nc'),
    'parse(commit=False,clean_qq,qq_depth=1)': (lambda d: d.parse(commit=False, clean_qq=True, qq_depth=1), 'nc'),
    'parse(commit=False,ocr_scrub=True)': (lambda d: d.parse(commit=False, ocr_scrub=True), 'nc'),
    'parse(ocr_scrub=True)': (lambda d: d.parse(ocr_scrub=True), 'parse'),
    'parse(parse_qq=True)': (lambda d: d.parse(parse_qq=True), 'parse'),
    'parse(parse_qq=False)': (lambda d: d.parse(parse_qq=False), 'parse'),
    'parse(default_ns=s)': (lambda d: d.parse(default_ns='s'), 'parse'),
    'parse(layout=copy_all)': (lambda d: d.parse(layout='copy_all'), 'parse'),
    'parse(clean_qq=True)': (lambda d: d.parse(clean_qq=True), 'parse'),
    'parse(segment=True)': (lambda d: d.parse(segment=True), 'parse'),
    'parse(qq_depth=1,parse_qq=True)': (lambda d: d.parse(qq_depth=1, parse_qq=True), 'parse'),
    'parse_tracts()': (lambda d: d.parse_tracts(), 'post'),
    'parse_tracts(qq_depth=1)': (lambda d: d.parse_tracts(qq_depth=1), 'post'),
    'parse_tracts(suppress_lot_divs=True)': (lambda d: d.parse_tracts(suppress_lot_divs=True), 'post'),
    'preprocess(commit=False,default_ns=s)': (lambda d: d.preprocess(commit=False, default_ns='s'), 'nc'),
    'preprocess(commit=False,ocr_scrub=True)': (lambda d: d.preprocess(commit=False, ocr_scrub=True), 'nc'),
    'preprocess(commit=True)': (lambda d: d.preprocess(commit=True), 'post'),
    "config='clean_qq,parse_qq'": (lambda d: setattr(d, 'config', 'clean_qq,parse_qq'), 'cfg'),
    "config='s,e,segment'": (lambda d: setattr(d, 'config', 's,e,segment'), 'cfg'),
    "config=''": (lambda d: setattr(d, 'config', ''), 'cfg'),
    "config='clean_qq.False,segment.False,parse_qq.False'": (lambda d: setattr(d, 'config', 'clean_qq.False,segment.False,parse_qq.False'), 'cfg'),
    "sort_tracts('s.rev')": (lambda d: d.sort_tracts('s.rev'), 'post'),
    'filter(even_sec,drop=True)': (lambda d: d.filter(even_sec, drop=True), 'post'),
}
TRACT_OPS = {
    'parse()': (lambda t: t.parse(), 'parse'),
    'parse(commit=False)': (lambda t: t.parse(commit=False), 'nc'),
    'parse(commit=False,clean_qq,qq_depth=1)': (lambda t: t.parse(commit=False, clean_qq=True, qq_depth=1), 'nc'),
    'parse(commit=False,suppress_lot_divs,break_halves)': (lambda t: t.parse(commit=False, suppress_lot_divs=True, break_halves=True), 'nc'),
    'parse(clean_qq=True)': (lambda t: t.parse(clean_qq=True), 'parse'),
    'parse(qq_depth=1)': (lambda t: t.parse(qq_depth=1), 'parse'),
    'parse(suppress_lot_divs=True)': (lambda t: t.parse(suppress_lot_divs=True), 'parse'),
    'parse(break_halves=True,qq_depth_min=3)': (lambda t: t.parse(break_halves=True, qq_depth_min=3), 'parse'),
    'preprocess(commit=False,clean_qq=True)': (lambda t: t.preprocess(commit=False, clean_qq=True), 'nc'),
    'preprocess(commit=True)': (lambda t: t.preprocess(commit=True), 'post'),
    "config='clean_qq'": (lambda t: setattr(t, 'config', 'clean_qq'), 'cfg'),
    "config='suppress_lot_divs,qq_depth.1'": (lambda t: setattr(t, 'config', 'suppress_lot_divs,qq_depth.1'), 'cfg'),
    "config=''": (lambda t: setattr(t, 'config', ''), 'cfg'),
    "config='clean_qq.False,suppress_lot_divs.False,qq_depth_min.1'": (lambda t: setattr(t, 'config', 'clean_qq.False,suppress_lot_divs.False,qq_depth_min.1'), 'cfg'),
}
# the committing counterpart of each non-committing operation (for the return-value oracle)
NC_COUNTERPART = {
    'parse(commit=False)': lambda o: o.parse(),
    'parse(commit=False,segment,parse_qq=False)': lambda d: d.parse(segment=True, parse_qq=False),
    'parse(commit=False,layout=copy_all)': lambda d: d.parse(layout='copy_all'),
    'parse(commit=False,clean_qq,qq_depth=1)': lambda o: o.parse(clean_qq=True, qq_depth=1),
    'parse(commit=False,ocr_scrub=True)': lambda d: d.parse(ocr_scrub=True),
    'parse(commit=False,suppress_lot_divs,break_halves)': lambda t: t.parse(suppress_lot_divs=True, break_halves=True),
}

SEEDS = [
    ('plss', 'T154-R97W Sec 14: Lots 1, 1, NE, NE/4, Sec 5 - 3: N2, xyz T1S-R2E', {'parse_qq': True}),
    ('plss', 'T154N-R97W Sec 14: NE/4', {}),
    ('plss', 'NE/4 of Section 14, foo bar', {'wait_to_parse': True}),
    ('plss', 'T154N-R97W Sec 14: Lots 1(40.00), 1, N/2 of Lot 2, NE/4, NE/4 less and except the wellbore, Sec 36: ALL',
     {'config': 'parse_qq,sec_colon_cautious', 'source': 'doc 7'}),
    ('plss', 'Sec 4, T154N-R97W, and Sec 14: NE, Lots 3 - 1', {'config': 'clean_qq', 'wait_to_parse': True}),
    # a Twp/Rge that only the OCR scrubber recognises ('lS4' for '154'), on an object configured without ocr_scrub
    ('plss', 'Township lS4 North, Range 97 West\nSection 14: NE/4, Lots 1 - 3\nT155N-R97W Sec 22: N/2NE/4', {}),
    ('tract', 'Lots 1, 1, 3 - 2, NE/4, NE/4', {'trs': '154n97w14', 'parse_qq': True}),
    ('tract', 'Lot 1(38.12), Lot 1(39.00), N/2 of Lot 2, NE', {'trs': '154n97w14'}),
    ('tract', 'N/2 of Lots 3 - 4, E/2W/2NE/4', {'trs': '1s2e01', 'config': 'qq_depth_min.3'}),
    ('tract', 'nothing to see here', {}),
]


def make_seed(n):
    kind, text, kw = SEEDS[n]
    if kind == 'plss':
        return _p.PLSSDesc(text, **kw)
    return _p.Tract(text, **kw)


def created_parsed(n):
    kind, text, kw = SEEDS[n]
    return bool(kw.get('parse_qq')) if kind == 'tract' else not kw.get('wait_to_parse')


def ops_for(n):
    return PLSS_OPS if SEEDS[n][0] == 'plss' else TRACT_OPS


def reduce_history(n, hist):
    ops = ops_for(n)
    last_parse = -1
    for i, name in enumerate(hist):
        if ops[name][1] == 'parse':
            last_parse = i
    out = []
    for i, name in enumerate(hist):
        kind = ops[name][1]
        if kind == 'nc':
            continue
        if i < last_parse and kind != 'cfg':
            continue
        out.append(name)
    return out


def replay_fresh(n, hist):
    o = make_seed(n)
    ops = ops_for(n)
    for name in hist:
        ops[name][0](o)
    return o


def result_value(r):
    """Canonical form of an operation's return value (TractList / list / str / None)."""
    if r is None or isinstance(r, str):
        return r
    if isinstance(r, _p.TractList):
        return [(t.trs, t.desc, tuple(t.lots), tuple(t.qqs), tuple(map(str, t.w_flags)), tuple(map(str, t.e_flags))) for t in r]
    return list(r)


# A list whose tracts carry *different* settings: parse_tracts() without keywords must give every tract exactly what the tract
# parsed on its own (same settings) gives - nothing may leak from one list element to the next.
HET_DESCS = ['Lot 1, NE, SW', 'N/2 of Lot 2, NE/4', 'N/2NE/4, Lot 3', 'ALL']
HET_CFGS = ['', 'clean_qq', 'suppress_lot_divs', 'break_halves,qq_depth_min.3', 'qq_depth.1', 'clean_qq.False,qq_depth_max.1']


def het_case(acc, ci, cj, via):
    import itertools as it
    cfgs = [HET_CFGS[ci], HET_CFGS[cj], HET_CFGS[ci]]
    key = f"het|{via}|{cfgs[0]}|{cfgs[1]}"
    case = {'het': True, 'ci': ci, 'cj': cj, 'via': via}
    descs = HET_DESCS[:3]
    try:
        if via == 'tractlist':
            ts = [_p.Tract(dsc, trs=f"154n97w{n + 1:02d}", config=c or None) for n, (dsc, c) in enumerate(zip(descs, cfgs))]
            tl = _p.TractList(ts)
            tl.parse_tracts()
        else:
            d = _p.PLSSDesc('T154N-R97W ' + ', '.join(f"Sec {n + 1}: {dsc}" for n, dsc in enumerate(descs)).replace(', Sec', '; Sec'))
            ts = list(d.tracts)
            for t, c in zip(ts, cfgs):
                t.config = c
            if via == 'plss.parse_tracts':
                d.parse_tracts()
            else:
                d.tracts.parse_tracts()
        got = [(t.pp_desc, tuple(t.lots), tuple(t.qqs)) for t in ts]
        want = []
        for t, c in zip(ts, cfgs):
            f = _p.Tract(t.desc, trs=t.trs, config=c or None)
            f.parse()
            want.append((f.pp_desc, tuple(f.lots), tuple(f.qqs)))
    except Exception as ex:  # noqa
        acc.case(key, 'EXC')
        acc.violation('exception', f"C14:exception:het:{via}:{type(ex).__name__}", case, got=f"{type(ex).__name__}: {ex}")
        return
    acc.case(key, repr(got))
    acc.transitions += 1
    if got != want:
        bad = [i for i in range(len(got)) if got[i] != want[i]]
        acc.violation('list_element_not_independent', f"C14:list_element_not_independent:{via}:{cfgs[0]}|{cfgs[1]}", case,
                      got=[got[i] for i in bad], exp=[want[i] for i in bad],
                      note=f"tract(s) {bad} of the list differ from the same tract parsed on its own with its own settings")
    else:
        acc.guard('het_checked')


def units(tier):
    # one unit per (seed, first operation): the BFS below the first operation runs with its own seen-set; the global number of
    # distinct states is the number of distinct snapshots over all units (runner: distinct_outcomes)
    us = []
    for n in range(len(SEEDS)):
        for name in ops_for_kind(SEEDS[n][0]):
            us.append({'seed': n, 'first': name})
    us.append({'het': True})
    return us


def ops_for_kind(kind):
    return PLSS_OPS if kind == 'plss' else TRACT_OPS


def space(tier):
    return {'bound': f"{len(SEEDS)} seed objects; all operation sequences of length <= {DEPTH[tier]} over {len(PLSS_OPS)} PLSSDesc / "
                     f"{len(TRACT_OPS)} Tract operations with state merging", 'caps_hit': []}


def check_transition(acc, n, hist, name, before, obj0):
    """Apply op `name` to a deep copy of obj0 (whose snapshot is `before`); returns (new object, new snapshot) or None."""
    ops = ops_for(n)
    fn, kind = ops[name]
    h2 = hist + (name,)
    key = f"{n}|{' ; '.join(h2)}"
    case = {'seed': n, 'history': list(h2)}
    o = copy.deepcopy(obj0)
    try:
        ret = fn(o)
    except Exception as ex:  # noqa
        acc.case(key, 'EXC')
        acc.violation('exception', f"C14:exception:{n}:{name}:{type(ex).__name__}", case, got=f"{type(ex).__name__}: {ex}")
        return None
    after = snap(o)
    acc.case(key, jdump(after) + '|' + repr(hidden(o)))
    acc.transitions += 1
    if kind == 'nc':
        if after != before:
            diff = [i for i, (a, b) in enumerate(zip(before, after)) if a != b]
            acc.violation('commit_false_side_effect', f"C14:commit_false_side_effect:{SEEDS[n][0]}:{name}", case,
                          got=[after[i] for i in diff][:3], exp=[before[i] for i in diff][:3], note=f"snapshot fields {diff} changed")
            return None
        if name in NC_COUNTERPART:
            o2 = copy.deepcopy(obj0)
            ret2 = NC_COUNTERPART[name](o2)
            if result_value(ret) != result_value(ret2):
                acc.violation('commit_false_result_differs', f"C14:commit_false_result_differs:{SEEDS[n][0]}:{name}", case,
                              got=result_value(ret), exp=result_value(ret2))
                return None
        # ... and no side effect outside the object either: every reached state equals a fresh object that replays its
        # reduced history (established by oracle 2 when the state was reached); that must still be so after the call
        try:
            again = snap(replay_fresh(n, reduce_history(n, hist)))
        except Exception as ex:  # noqa
            acc.violation('exception_on_fresh_replay', f"C14:exception_on_fresh_replay:{n}:{name}", case, got=f"{type(ex).__name__}: {ex}")
            return None
        if again != before:
            diff = [i for i, (a, b) in enumerate(zip(before, again)) if a != b]
            acc.violation('commit_false_leaks_outside_object', f"C14:commit_false_leaks_outside_object:{SEEDS[n][0]}:{name}", case,
                          got=[again[i] for i in diff][:2], exp=[before[i] for i in diff][:2],
                          note=f"a fresh object replaying {reduce_history(n, hist)} after the call differs from the same replay before "
                               f"it (snapshot fields {diff}): the call changed state outside the object")
            return None
        acc.guard('nocommit_checked')
        return o, after
    if name in ('parse()', 'parse_tracts()') and created_parsed(n) and all(h in ('parse()', 'parse_tracts()') or ops[h][1] == 'nc' for h in hist):
        # re-parsing with unchanged settings (no config assignment, no keyword since creation) reproduces exactly the same results
        plss = SEEDS[n][0] == 'plss'
        if plss and name == 'parse()':
            # (a committed parse() rebuilds the tracts from the object's settings: tracts that an earlier parse_tracts() parsed into
            # lots / aliquots although parse_qq is off legitimately come back unparsed)
            ready = 'parse_tracts()' not in hist
        else:
            ready = (not plss) or all(t.parse_complete for t in obj0.tracts) or not obj0.tracts
        if ready and after != before:
            diff = [i for i, (a, b) in enumerate(zip(before, after)) if a != b]
            acc.violation('reparse_changes_results', f"C14:reparse_changes_results:{SEEDS[n][0]}:{name}:fields{diff}", case,
                          got=[after[i] for i in diff][:2], exp=[before[i] for i in diff][:2],
                          note=f"settings unchanged since creation; snapshot fields {diff} differ after the re-parse")
            return None
    if kind == 'cfg':
        # a config assignment applies every setting that the assigned text spells out (also an explicit 'off' / 0); what the
        # text leaves out keeps its value (documented behaviour of the setter)
        m = __import__('re').match(r"config='(.*)'$", name)
        spec = _p.Config(m.group(1))
        wrong = []
        for attr in _p.Config._CONFIG_ATTRIBUTES:
            v = getattr(spec, attr)
            if v is not None and hasattr(o, attr) and getattr(o, attr) != v:
                wrong.append((attr, getattr(o, attr), v))
        for attr in _p.Config._CONFIG_ATTRIBUTES:
            if getattr(spec, attr) is None and hasattr(o, attr) and hasattr(obj0, attr) and getattr(o, attr) != getattr(obj0, attr):
                wrong.append((attr, getattr(o, attr), 'unchanged ' + repr(getattr(obj0, attr))))
        if wrong:
            acc.violation('config_assignment_not_applied', f"C14:config_assignment_not_applied:{SEEDS[n][0]}:{name}:{wrong[0][0]}", case,
                          got=wrong[:3], note='(setting, value on the object after the assignment, value spelled out in the assigned config)')
            return None
    # (2) history reduction against a fresh object
    red = reduce_history(n, h2)
    try:
        fresh = replay_fresh(n, red)
        want = snap(fresh)
    except Exception as ex:  # noqa
        acc.violation('exception_on_fresh_replay', f"C14:exception_on_fresh_replay:{n}:{name}", case, got=f"{type(ex).__name__}: {ex}")
        return None
    if after != want:
        diff = [i for i, (a, b) in enumerate(zip(want, after)) if a != b]
        detail_got = [after[i] for i in diff][:2]
        detail_exp = [want[i] for i in diff][:2]
        acc.violation('history_dependent', f"C14:history_dependent:{SEEDS[n][0]}:{name}:fields{diff}", case, got=detail_got, exp=detail_exp,
                      note=f"fresh object replaying {red} differs in snapshot fields {diff}")
        return None
    # (3) idempotence of committed operations
    o3 = copy.deepcopy(o)
    try:
        fn(o3)
    except Exception as ex:  # noqa
        acc.violation('exception', f"C14:exception:{n}:{name};{name}:{type(ex).__name__}", case, got=f"{type(ex).__name__}: {ex}")
        return None
    again = snap(o3)
    if again != after:
        diff = [i for i, (a, b) in enumerate(zip(after, again)) if a != b]
        acc.violation('not_idempotent', f"C14:not_idempotent:{SEEDS[n][0]}:{name}:fields{diff}", dict(case, history=list(h2) + [name]),
                      got=[again[i] for i in diff][:2], exp=[after[i] for i in diff][:2],
                      note=f"repeating the operation changes snapshot fields {diff}")
        return None
    acc.guard('committed_checked')
    return o, after


def run_unit(unit, tier):
    acc = Acc()
    if unit.get('het'):
        for ci in range(len(HET_CFGS)):
            for cj in range(len(HET_CFGS)):
                for via in ('tractlist', 'plss.parse_tracts', 'plss.tracts.parse_tracts'):
                    het_case(acc, ci, cj, via)
        return acc.result()
    n = unit['seed']
    depth = DEPTH[tier]
    root = make_seed(n)
    s0 = snap(root)
    if snap(copy.deepcopy(root)) != s0:
        raise RuntimeError('deepcopy does not preserve the snapshot')
    r = check_transition(acc, n, (), unit['first'], s0, root)
    if r is None:
        return acc.result()
    o1, s1 = r
    k0, k1 = state_key(root, s0), state_key(o1, s1)
    seen = {k0: (), k1: (unit['first'],)}
    frontier = [(o1, (unit['first'],), s1)] if k1 != k0 else []
    acc.states = len(seen)
    ops = ops_for(n)
    for level in range(1, depth):
        nxt = []
        for obj, hist, before in frontier:
            for name in ops:
                r = check_transition(acc, n, hist, name, before, obj)
                if r is None:
                    continue
                o, after = r
                k = state_key(o, after)
                if k not in seen:
                    seen[k] = hist + (name,)
                    nxt.append((o, hist + (name,), after))
                    acc.states += 1
        frontier = nxt
        if not frontier:
            acc.extra['units_closed_before_depth_bound'] += 1
            break
    if len(seen) > 1 and s1 != s0:
        acc.guard('more_than_one_state')
    if any(k[1] != k0[1] for k in seen):
        acc.guard('hidden_state_distinguished')
    return acc.result()


def replay(case):
    acc = Acc()
    if case.get('het'):
        het_case(acc, case['ci'], case['cj'], case['via'])
        return acc.viol
    n = case['seed']
    hist = tuple(case['history'])
    ops = ops_for(n)
    obj = make_seed(n)
    for i, name in enumerate(hist):
        before = snap(obj)
        r = check_transition(acc, n, hist[:i], name, before, obj)
        if r is None:
            break
        obj = r[0]
    return acc.viol


def guards(info):
    g = info['guards']
    out = []
    for name in ('nocommit_checked', 'committed_checked', 'het_checked'):
        if not g.get(name):
            out.append(f"never observed: {name}")
    if g.get('more_than_one_state', 0) < len(SEEDS):
        out.append('fewer state-changing first operations than seed objects')
    return out
