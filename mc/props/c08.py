"""
C08 - Twp/Rge spellings are equivalent; missing directions come from defaults only.

Numbers x directions present/absent x spellings x direction-word styles x default sources
(none / config string / parse() keyword / find_twprge keyword / MasterConfig) x default values, plus
ocr_scrub look-alike substitutions in every digit position, plus two Twp/Rges per text.
"""
import itertools
import warnings

from ..core import Acc, import_pytrs

ID = 'C08'
LEVEL = 'model_checking'
TECHNIQUE = ('bounded exhaustive enumeration of Twp/Rge numbers x presence of directions x spellings x direction words x default '
             'sources and values (+ OCR look-alike substitutions) on the real preprocessor / PLSSDesc / find_twprge')
LEVEL_TEXT = ('6 townships x 7 ranges x {N, S, absent} x {E, W, absent} x 10 spellings x 6 direction-word styles (quick: same style for '
              'both letters; thorough: all 36 pairs) x 9 default-value combinations through the config string, and the other four '
              'default sources at one deviation; every digit position of 4 number pairs with each OCR look-alike; all ordered pairs of '
              '6 spellings in one text. Oracle: the normalised T..-R.. text, the standard TRS, the fixed_twprge warning iff a direction '
              'was missing, agreement with the fully written text, explicit directions never overridden.')
LEVEL_NOTE = ('Trusted: the spelling table in mc/props/c08.py. Excluded by the statement / regex comments: range "2" without an '
              'explicit R; run-together "T1R1" when a direction is missing; OCR look-alikes without the T prefix.')
RULE = (
    "state = (twp, ns|absent, rge, ew|absent, spelling, word style, default source, default values); transitions deviate one "
    "dimension; canonicalised by (text, source, defaults); every state executed. Non-trivial = every distinct state."
)
ASSUMPTIONS = [
    "numbers outside {1,7,15,154} x {1,2,9,97,102} (and the OCR pool) are not explored",
]

TWPS = [154, 1, 7, 15, 2, 20]
RGES = [97, 1, 2, 9, 102, 25, 200]        # incl. numbers that start with 2 (a lone range 2 is the documented special case)
NSW = {'N': ['N', 'North', 'n', 'N.', 'north', 'NORTH'], 'S': ['S', 'South', 's', 'S.', 'south', 'SOUTH']}
EWW = {'E': ['E', 'East', 'e', 'E.', 'east', 'EAST'], 'W': ['W', 'West', 'w', 'W.', 'west', 'WEST']}
_p = None


def worker_init(tier):
    global _p
    _p = import_pytrs()
    warnings.simplefilter('ignore')


def spellings(t, nsw, r, eww, has_ns, has_ew):
    """-> list of (name, text). nsw / eww are '' when absent."""
    out = []
    both = has_ns and has_ew

    def dot(w):     # 'N.' style already has its period
        return w
    out.append(('T-R', f"T{t}{nsw}-R{r}{eww}"))
    out.append(('T R', f"T{t}{nsw} R{r}{eww}"))
    out.append(('Township, Range', f"Township {t} {nsw}, Range {r} {eww}".replace(' ,', ',').rstrip()))
    out.append(('Twp. Rge.', (f"Twp. {t} {nsw}, Rge. {r} {eww}").replace(' ,', ',').rstrip()))
    out.append(('T. R.', (f"T. {t} {nsw}, R. {r} {eww}").replace(' ,', ',').rstrip()))
    out.append(('t-r', f"t{t}{nsw}-r{r}{eww}"))
    out.append(('Township - Range', f"Township {t} {nsw} - Range {r} {eww}".replace('  ', ' ').rstrip()))
    if has_ns:
        # without the 'T' / 'Township' word (the range keeps its 'R' / 'Range'): '154N-R97W', '154 North, Range 97 West', also with
        # the E/W missing ('154N-R97')
        out.append(('noT N-R', f"{t}{nsw}-R{r}{eww}"))
        out.append(('noT n-r', f"{t}{nsw}-r{r}{eww}"))
        out.append(('noT words', f"{t} {nsw}, Range {r} {eww}".rstrip()))
        out.append(('noT WORDS', f"{t} {nsw}, RANGE {r} {eww}".rstrip()))
    if t < 100 and r < 100:
        # leading zeros ("clean up any leading '0's" in unpack_twprge)
        out.append(('zero padded', f"T{t:02d}{nsw}-R{r:03d}{eww}"))
    if both:
        out.append(('TR glued', f"T{t}{nsw}R{r}{eww}"))
        out.append(('Township Range PM', f"Township {t} {nsw}, Range {r} {eww}, of the 5th P.M."))
        if r != 2:
            out.append(('bare dash', f"{t}{nsw}-{r}{eww}"))
            out.append(('bare blank', f"{t}{nsw} {r}{eww}"))
    return out


def expected(t, ns, r, ew, dns, dew):
    ens = (ns or (dns or 'n')).upper()
    eew = (ew or (dew or 'w')).upper()
    return f"T{t}{ens}-R{r}{eew}", f"{t}{ens.lower()}{r}{eew.lower()}"


SOURCES = ['config', 'none', 'parse_kw', 'find_kw', 'master']
# (text after the Twp/Rge, a word of it that must survive verbatim, expected description of the one tract)
FOLLOWS = [
    (', Excepting the road, Sec 14: NE/4', 'Excepting', 'NE/4'),
    (' Wetland tract, Sec 14: NE/4', 'Wetland', 'NE/4'),
    (' Easement Sec 14: NE/4', 'Easement', 'NE/4'),
    (' E/2 of Sec 14', 'E/2', 'E/2'),
    ('\nW/2 of Sec 14', 'W/2', 'W/2'),
    (', W½ of Sec 14', 'W½', 'W½'),
]


def observe(text, source, dns, dew):
    """-> dict(pp, trs list, fixed flag present, find list)"""
    MC = _p.MasterConfig
    full = f"{text} Sec 14: NE/4"
    saved = (MC.default_ns, MC.default_ew)
    try:
        if source == 'config':
            cfg = ','.join(x for x in (dns, dew) if x) or None
            d = _p.PLSSDesc(full, config=cfg)
            find = _p.find_twprge(full, preprocess=True, default_ns=dns, default_ew=dew)
        elif source == 'none':
            d = _p.PLSSDesc(full)
            find = _p.find_twprge(full, preprocess=True)
        elif source == 'parse_kw':
            d = _p.PLSSDesc(full, wait_to_parse=True)
            d.parse(default_ns=dns, default_ew=dew)
            find = _p.find_twprge(full, dns, dew, True)
        elif source == 'find_kw':
            d = _p.PLSSDesc(full, config=_p.Config.from_kwargs(default_ns=dns, default_ew=dew))
            find = _p.find_twprge(text, default_ns=dns, default_ew=dew, preprocess=True)
        else:
            if dns:
                MC.default_ns = dns
            if dew:
                MC.default_ew = dew
            d = _p.PLSSDesc(full)
            find = _p.find_twprge(full, preprocess=True)
        return {'pp': d.pp_desc, 'trs': [t.trs for t in d.tracts], 'desc': [t.desc for t in d.tracts],
                'fixed': [f for f in d.w_flags if f.startswith('fixed_twprge')], 'find': find,
                'eflags': list(d.e_flags)}
    finally:
        MC.default_ns, MC.default_ew = saved


def judge(acc, t, ns, r, ew, sname, text, source, dns, dew, seen):
    key = f"{source}|{dns}|{dew}|{text}"
    if key in seen:
        return
    seen.add(key)
    case = {'t': t, 'ns': ns, 'r': r, 'ew': ew, 'spelling': sname, 'text': text, 'source': source, 'dns': dns, 'dew': dew}
    want_pp, want_trs = expected(t, ns, r, ew, dns, dew)
    try:
        o = observe(text, source, dns, dew)
    except Exception as ex:  # noqa
        acc.case(key, 'EXC')
        acc.violation('exception', f"C08:exception:{key}", case, got=f"{type(ex).__name__}: {ex}")
        return
    acc.case(key, [o['pp'], o['trs'], o['find']])
    acc.states += 1
    missing = ns is None or ew is None
    if not o['pp'].startswith(want_pp + ' '):
        acc.violation('not_normalised', f"C08:not_normalised:{key}", case, got=o['pp'], exp=want_pp + ' ...')
        return
    if o['trs'] != [want_trs + '14'] or o['desc'] != ['NE/4'] or o['eflags']:
        acc.violation('wrong_tract', f"C08:wrong_tract:{key}", case, got=[o['trs'], o['desc'], o['eflags']], exp=[want_trs + '14'])
        return
    if o['find'] != [want_pp]:
        acc.violation('find_twprge', f"C08:find_twprge:{key}", case, got=o['find'], exp=[want_pp])
        return
    if bool(o['fixed']) != missing:
        acc.violation('fixed_twprge_warning', f"C08:fixed_twprge_warning:{key}", case, got=o['fixed'],
                      exp='present' if missing else 'absent')
        return
    if source == 'config' and sname in ('T-R', 'Township, Range', 'T R', 'Twp. Rge.') and (ew is None or (dns, dew) == (None, None)):
        # the words that follow the Twp/Rge never supply (or lose letters to) a missing direction
        cfg = ','.join(x for x in (dns, dew) if x) or None
        for follow, word, want_desc in FOLLOWS:
            ftext = text + follow
            fkey = f"follow|{dns}|{dew}|{ftext}"
            if fkey in seen:
                continue
            seen.add(fkey)
            fcase = dict(case, text=ftext, follow=follow)
            try:
                d = _p.PLSSDesc(ftext, config=cfg)
                got = (d.pp_desc, [x.trs for x in d.tracts], [x.desc for x in d.tracts])
            except Exception as ex:  # noqa
                acc.case(fkey, 'EXC')
                acc.violation('exception', f"C08:exception:{fkey}", fcase, got=f"{type(ex).__name__}: {ex}")
                continue
            acc.case(fkey, list(got))
            acc.states += 1
            if not got[0].startswith(want_pp) or got[0][len(want_pp):len(want_pp) + 1].isalnum() or got[1] != [want_trs + '14'] \
                    or word not in got[0]:
                acc.violation('direction_from_following_word', f"C08:direction_from_following_word:{fkey}", fcase, got=list(got),
                              exp=[want_pp + ' ... ' + word + ' ...', [want_trs + '14']],
                              note=f"the word {word!r} after the Twp/Rge must stay intact; a missing direction comes from the defaults")
            else:
                acc.guard('follow_ok')
    if missing:
        acc.guard('direction_filled')
        if (ns is None and dns == 's') or (ew is None and dew == 'e'):
            acc.guard('non_master_default_used')
    else:
        if dns or dew:
            acc.guard('explicit_kept_against_default')


def units(tier):
    us = []
    for t in TWPS:
        for r in RGES:
            us.append({'k': 'grid', 't': t, 'r': r})
    us.append({'k': 'ocr'})
    us.append({'k': 'two'})
    us.append({'k': 'same'})
    us.append({'k': 'reuse'})
    return us


def space(tier):
    return {'bound': f"{len(TWPS)} townships x {len(RGES)} ranges x 3 x 3 direction presences x <= 11 spellings x "
                     f"{'6 same-style' if tier == 'quick' else '36'} direction-word styles x 9 default combinations (config source); "
                     "other sources at default-word style; OCR: 5 number pairs x every digit position x 4 look-alikes; two-Twp/Rge texts: "
                     "6 x 6 spellings; the same Twp/Rge twice (complete / missing N/S / E/W / both, 4 x 4 x 6 x 3 spellings x 3 shapes)", 'caps_hit': []}


def run_grid(acc, t, r, tier):
    seen = set()
    for ns in ('N', 'S', None):
        for ew in ('E', 'W', None):
            styles_ns = range(6) if ns else [None]
            styles_ew = range(6) if ew else [None]
            for a in styles_ns:
                for b in styles_ew:
                    if tier == 'quick' and a is not None and b is not None and a != b:
                        continue
                    nsw = NSW[ns][a] if ns else ''
                    eww = EWW[ew][b] if ew else ''
                    for sname, text in spellings(t, nsw, r, eww, ns is not None, ew is not None):
                        if r == 2 and sname in ('bare dash', 'bare blank'):
                            continue
                        for dns in (None, 'n', 's'):
                            for dew in (None, 'e', 'w'):
                                acc.transitions += 1
                                judge(acc, t, ns, r, ew, sname, text, 'config', dns, dew, seen)
                        if (a in (0, None)) and (b in (0, None)):
                            for source in SOURCES[1:]:
                                for dns, dew in ((None, None), ('s', 'e'), ('s', None), (None, 'e'), ('n', 'w')):
                                    if source == 'none' and (dns or dew):
                                        continue
                                    acc.transitions += 1
                                    judge(acc, t, ns, r, ew, sname, text, source, dns, dew, seen)


OCR_SUBS = {'1': ['I', 'l'], '0': ['O'], '5': ['S']}
OCR_PAIRS = [(154, 97), (105, 51), (15, 10), (10, 105), (51, 150)]


def run_ocr(acc):
    for t, r in OCR_PAIRS:
        for ns, ew in (('N', 'W'), ('S', 'E')):
            want_pp = f"T{t}{ns}-R{r}{ew}"
            forms = [lambda a, b: f"T{a}{ns}-R{b}{ew}", lambda a, b: f"T{a}{ns} R{b}{ew}",
                     lambda a, b: f"Township {a} {NSW[ns][1]}, Range {b} {EWW[ew][1]}", lambda a, b: f"T{a}{ns}R{b}{ew}"]
            ts, rs = str(t), str(r)
            variants = []
            for i, ch in enumerate(ts):
                for sub in OCR_SUBS.get(ch, []):
                    variants.append((ts[:i] + sub + ts[i + 1:], rs))
            for i, ch in enumerate(rs):
                for sub in OCR_SUBS.get(ch, []):
                    variants.append((ts, rs[:i] + sub + rs[i + 1:]))
            for a, b in variants:
                for fi, f in enumerate(forms):
                    text = f(a, b)
                    full = f"{text} Sec 14: NE/4"
                    key = f"ocr|{text}"
                    case = {'ocr': True, 'text': text, 'want': want_pp}
                    acc.transitions += 1
                    try:
                        d = _p.PLSSDesc(full, config='ocr_scrub')
                        find = _p.find_twprge(full, ocr_scrub=True)
                        d0 = _p.PLSSDesc(f"{f(ts, rs)} Sec 14: NE/4", config='ocr_scrub')
                    except Exception as ex:  # noqa
                        acc.case(key, 'EXC')
                        acc.violation('exception', f"C08:exception:{key}", case, got=f"{type(ex).__name__}: {ex}")
                        continue
                    acc.case(key, [d.pp_desc, [x.trs for x in d.tracts], find])
                    acc.states += 1
                    want_trs = f"{t}{ns.lower()}{r}{ew.lower()}14"
                    if not d.pp_desc.startswith(want_pp + ' ') or [x.trs for x in d.tracts] != [want_trs] or find != [want_pp]:
                        acc.violation('ocr_scrub', f"C08:ocr_scrub:{text}", case, got=[d.pp_desc, [x.trs for x in d.tracts], find],
                                      exp=[want_pp, want_trs])
                        continue
                    if [(x.trs, x.desc) for x in d.tracts] != [(x.trs, x.desc) for x in d0.tracts]:
                        acc.violation('ocr_scrub_differs', f"C08:ocr_scrub_differs:{text}", case)
                        continue
                    acc.guard('ocr_scrubbed')


def run_two(acc):
    names = ['T-R', 'Township, Range', 'Twp. Rge.', 'bare dash', 't-r', 'T. R.', 'noT N-R', 'noT words']
    A = (154, 'N', 97, 'W')
    B = (7, 'S', 9, 'E')
    for na in names:
        for nb in names:
            for missing in (False, True):
                ta = dict(spellings(A[0], '' if missing else 'N', A[2], 'W', not missing, True)).get(na)
                tb = dict(spellings(B[0], 'S', B[2], 'E', True, True)).get(nb)
                if ta is None or tb is None:
                    continue
                for layout_text, order in ((f"{ta} Sec 14: NE/4, {tb} Sec 36: ALL", 'ab'),
                                           (f"{tb}\nSec 36: ALL\n{ta}\nSec 14: NE/4", 'ba')):
                    key = f"two|{layout_text}"
                    case = {'two': True, 'text': layout_text}
                    acc.transitions += 1
                    try:
                        d = _p.PLSSDesc(layout_text)
                        find = _p.find_twprge(layout_text, preprocess=True)
                    except Exception as ex:  # noqa
                        acc.case(key, 'EXC')
                        acc.violation('exception', f"C08:exception:{key}", case, got=f"{type(ex).__name__}: {ex}")
                        continue
                    acc.case(key, [[x.trs for x in d.tracts], find])
                    acc.states += 1
                    wa, wb = ('T154N-R97W', '154n97w14', 'NE/4'), ('T7S-R9E', '7s9e36', 'ALL')
                    seq = [wa, wb] if order == 'ab' else [wb, wa]
                    if find != [s[0] for s in seq]:
                        acc.violation('find_twprge_order', f"C08:find_twprge_order:{layout_text}", case, got=find,
                                      exp=[s[0] for s in seq])
                        continue
                    if [(x.trs, x.desc) for x in d.tracts] != [(s[1], s[2]) for s in seq]:
                        acc.violation('two_twprge_tracts', f"C08:two_twprge_tracts:{layout_text}", case,
                                      got=[(x.trs, x.desc) for x in d.tracts], exp=[(s[1], s[2]) for s in seq])
                        continue
                    if bool([f for f in d.w_flags if f.startswith('fixed_twprge')]) != missing:
                        acc.violation('fixed_twprge_warning', f"C08:fixed_twprge_warning:{key}", case, got=d.w_flags)
                        continue
                    acc.guard('two_ok')


def run_two_noT(acc):
    """A second Twp/Rge written without 'T' and without its E/W, behind a comma / semicolon / line break."""
    for na in ('T-R', 'Township, Range', 'noT N-R'):
        ta = dict(spellings(154, 'N', 97, 'W', True, True))[na]
        for tb in ('7S-R9', '7 South, Range 9', '7s-r9', '7S R9'):
            for sep in (', ', '; ', '\n', ' '):
                text = f"{ta} Sec 14: NE/4{sep}{tb} Sec 36: ALL"
                key = f"two|{text}"
                case = {'two': True, 'text': text}
                acc.transitions += 1
                try:
                    d = _p.PLSSDesc(text)
                    find = _p.find_twprge(text, preprocess=True)
                except Exception as ex:  # noqa
                    acc.case(key, 'EXC')
                    acc.violation('exception', f"C08:exception:{key}", case, got=f"{type(ex).__name__}: {ex}")
                    continue
                acc.case(key, [[x.trs for x in d.tracts], find])
                acc.states += 1
                if find != ['T154N-R97W', 'T7S-R9W'] or [(x.trs, x.desc) for x in d.tracts] != [('154n97w14', 'NE/4'), ('7s9w36', 'ALL')] \
                        or not [f for f in d.w_flags if f.startswith('fixed_twprge')]:
                    acc.violation('two_twprge_tracts', f"C08:two_twprge_tracts:{text}", case,
                                  got=[find, [(x.trs, x.desc) for x in d.tracts], d.w_flags, d.pp_desc],
                                  exp=[['T154N-R97W', 'T7S-R9W'], [('154n97w14', 'NE/4'), ('7s9w36', 'ALL')], 'fixed_twprge<7s9w>'])
                else:
                    acc.guard('two_ok')


def run_same(acc):
    """The same Twp/Rge occurs twice in one text: once complete and once with a missing direction (in both orders, also twice
    incomplete): the fixed_twprge warning must be raised whenever some occurrence lacked a direction."""
    names = ['T-R', 'Township, Range', 'Twp. Rge.', 't-r', 'T. R.', 'T R']
    forms = {
        'full': lambda n: dict(spellings(154, 'N', 97, 'W', True, True)).get(n),
        'no_ns': lambda n: dict(spellings(154, '', 97, 'W', False, True)).get(n),
        'no_ew': lambda n: dict(spellings(154, 'N', 97, '', True, False)).get(n),
        'no_both': lambda n: dict(spellings(154, '', 97, '', False, False)).get(n),
    }
    for ka in forms:
        for kb in forms:
            for na in names:
                for nb in names[:3]:
                    ta, tb = forms[ka](na), forms[kb](nb)
                    if ta is None or tb is None:
                        continue
                    for text in (f"{ta} Sec 14: NE/4, {tb} Sec 15: W/2", f"{ta}\nSec 14: NE/4\n{tb}\nSec 15: W/2",
                                 f"NE/4 of Sec 14, {ta}, Lot 1 of Sec 15, {tb}"):
                        key = f"same|{text}"
                        case = {'two': True, 'same': True, 'text': text}
                        acc.transitions += 1
                        try:
                            d = _p.PLSSDesc(text)
                            find = _p.find_twprge(text, preprocess=True)
                        except Exception as ex:  # noqa
                            acc.case(key, 'EXC')
                            acc.violation('exception', f"C08:exception:{key}", case, got=f"{type(ex).__name__}: {ex}")
                            continue
                        acc.case(key, [[x.trs for x in d.tracts], find, d.w_flags])
                        acc.states += 1
                        # (the second block must not start with a direction letter when it follows an incomplete Twp/Rge:
                        # 'R97, W/2' is genuinely ambiguous)
                        want2 = 'Lot 1' if text.startswith('NE/4 of') else 'W/2'
                        if [(x.trs, x.desc) for x in d.tracts] != [('154n97w14', 'NE/4'), ('154n97w15', want2)] or \
                                find != ['T154N-R97W', 'T154N-R97W']:
                            acc.violation('two_twprge_tracts', f"C08:two_twprge_tracts:{text}", case,
                                          got=[[(x.trs, x.desc) for x in d.tracts], find])
                            continue
                        missing = ka != 'full' or kb != 'full'
                        if bool([f for f in d.w_flags if f.startswith('fixed_twprge')]) != missing:
                            acc.violation('fixed_twprge_warning', f"C08:fixed_twprge_warning:{key}", case, got=d.w_flags,
                                          exp='present' if missing else 'absent')
                            continue
                        acc.guard('same_twprge_twice_ok')


def run_reuse(acc, only=None):
    """One PLSSDesc object parsed several times: a default direction given as a keyword to one parse() call applies to that call
    only; the next call falls back to the object's config, then to MasterConfig (as it stands at the time of the call)."""
    MC = _p.MasterConfig
    t, r = 154, 97
    for ns, ew in ((None, None), (None, 'W'), ('S', None), ('N', 'E')):
        for sname, text in spellings(t, ns or '', r, ew or '', bool(ns), bool(ew))[:4]:
            full = f"{text} Sec 14: NE/4"
            for cns, cew in ((None, None), ('n', 'w'), ('s', 'e'), ('s', None), (None, 'e')):
                cfg = ','.join(x for x in (cns, cew) if x) or None
                for kns, kew in (('s', 'e'), ('n', 'w'), (None, 'e'), ('s', None)):
                    for mns, mew in ((None, None), ('s', 'e')):
                        key = f"reuse|{cfg}|{kns},{kew}|{mns},{mew}|{text}"
                        if only is not None and key != only:
                            continue
                        case = {'reuse': True, 'key': key, 'text': full, 'config': cfg, 'keyword': [kns, kew], 'master_later': [mns, mew]}
                        saved = (MC.default_ns, MC.default_ew)
                        steps = []
                        try:
                            d = _p.PLSSDesc(full, config=cfg)
                            steps.append(('creation', d.pp_desc, [x.trs for x in d.tracts], expected(t, ns, r, ew, cns, cew)))
                            d.parse(default_ns=kns, default_ew=kew)
                            steps.append(('parse(keyword)', d.pp_desc, [x.trs for x in d.tracts],
                                          expected(t, ns, r, ew, kns or cns, kew or cew)))
                            d.parse()
                            steps.append(('parse() after it', d.pp_desc, [x.trs for x in d.tracts], expected(t, ns, r, ew, cns, cew)))
                            d.parse(commit=False, default_ns=kns, default_ew=kew)
                            pp = d.preprocess(commit=False)
                            steps.append(('preprocess(commit=False) after it', pp, [x.trs for x in d.tracts], expected(t, ns, r, ew, cns, cew)))
                            if mns:
                                MC.default_ns, MC.default_ew = mns, mew
                                d.parse()
                                steps.append(('parse() after MasterConfig changed', d.pp_desc, [x.trs for x in d.tracts],
                                              expected(t, ns, r, ew, cns or mns, cew or mew)))
                        except Exception as ex:  # noqa
                            acc.case(key, 'EXC')
                            acc.violation('exception', f"C08:exception:{key}", case, got=f"{type(ex).__name__}: {ex}")
                            continue
                        finally:
                            MC.default_ns, MC.default_ew = saved
                        acc.case(key, [(a, b, c) for a, b, c, _ in steps])
                        acc.states += len(steps)
                        bad = [(name, pp, trs, want) for name, pp, trs, want in steps
                               if not str(pp).startswith(want[0] + ' ') or trs != [want[1] + '14']]
                        if bad:
                            name, pp, trs, want = bad[0]
                            acc.violation('stale_default_on_reused_object', f"C08:stale_default_on_reused_object:{name}:{cfg}:{kns},{kew}", case,
                                          got=[pp, trs], exp=[want[0] + ' ...', [want[1] + '14']], note=f"at step: {name}")
                        else:
                            acc.guard('reuse_ok')


def run_unit(unit, tier):
    acc = Acc()
    if unit['k'] == 'reuse':
        run_reuse(acc)
        return acc.result()
    if unit['k'] == 'same':
        run_same(acc)
        return acc.result()
    if unit['k'] == 'grid':
        run_grid(acc, unit['t'], unit['r'], tier)
    elif unit['k'] == 'ocr':
        run_ocr(acc)
    else:
        run_two(acc)
        run_two_noT(acc)
    return acc.result()


def replay(case):
    acc = Acc()
    if case.get('reuse'):
        run_reuse(acc, only=case['key'])
        return acc.viol
    if case.get('ocr') or case.get('two'):
        sub = Acc()
        (run_ocr if case.get('ocr') else (run_same if case.get('same') else (lambda a: (run_two(a), run_two_noT(a)))))(sub)
        return [v for v in sub.viol if v['case'].get('text') == case['text']]
    judge(acc, case['t'], case['ns'], case['r'], case['ew'], case['spelling'], case['text'], case['source'],
          case['dns'], case['dew'], set())
    return acc.viol


def guards(info):
    g = info['guards']
    out = []
    for name in ('direction_filled', 'non_master_default_used', 'explicit_kept_against_default', 'ocr_scrubbed', 'two_ok', 'same_twprge_twice_ok', 'reuse_ok', 'follow_ok'):
        if not g.get(name):
            out.append(f"never observed: {name}")
    return out
