"""
C04 - no description text is silently dropped.

Base descriptions (16 default-rendered seeds in the 4 layouts + 3 extra seeds with prose, a P.M.
phrase and a sec_within shape) and their damaged variants (one token deleted; all colons removed;
a stray Twp/Rge inserted; text before the first / after the last Twp/Rge) x every insertion point
(token boundary) of a foreign marker word x parse modes (default, segment, sec_within, colon modes,
every forced layout).  Oracle: the marker occurs in some tract description or in some
unused_desc<...> error flag.  The words of the description blocks are tracked the same way.
"""
import re
import warnings
import zlib

from ..core import Acc, import_pytrs
from .. import gen, soup

ID = 'C04'
LEVEL = 'model_checking'
TECHNIQUE = ('exhaustive enumeration of marker-insertion points x damaged variants of seed descriptions x parse modes on the real '
             'PLSSDesc; oracle: the marker survives in a tract description or an unused_desc error flag')
LEVEL_TEXT = ('19 (thorough: 43) seed descriptions x {intact, each token deleted, colons removed, stray Twp/Rge at 3 places, leading text, trailing '
              'text} x every token boundary x 2 markers (4 letters = the reportable minimum, and 7 letters; plus 4 markers ending in connector letters and one trap marker per literal run of the patterns on the intact variants) x 12 parse modes incl. every '
              'forced layout. Every block of text between two recognised markers is thereby probed in every role the parser can '
              'assign to it (tract description, unused component, chunk leftover, re-attached sec_within text).')
LEVEL_NOTE = ('Trusted: the exemption predicate for the window between a Twp/Rge and a following P.M. designation (the preprocessor '
              'discards it as part of the meridian designation, which the statement exempts). Markers shorter than 4 characters are '
              'not in the alphabet (documented minimum reportable length).')
RULE = (
    "state = (seed, damage variant, insertion point, marker, parse mode); transitions: apply a damage edit / move the insertion "
    "point / deviate the mode; canonicalised by (text, mode); every state executed. Non-trivial = every distinct (text, mode)."
)
ASSUMPTIONS = [
    "insertion happens at token boundaries (never inside a Twp/Rge token or a number)",
    "the documented minimum block length (MIN_REPORTABLE_UNUSED_LEN = 4) is taken as each mechanism states it: on the raw block "
    "incl. its blanks in examine_unused (so a 3-letter word between blanks is reportable), on the cleaned block in "
    "rebuild_sec_within (so the 3-letter marker is not used under sec_within); words of 1-2 letters are outside the alphabet",
]

MARKERS = ['QXZV', 'Zyxwvut']
# markers that end in letters which are also connector words (a clean-up that strips 'and' / 'in' / 'of' / 'the' must not
# bite into an ordinary word); used on the intact, colon-less, lead and trail variants
TAIL_MARKERS = ['Garland', 'Woodland', 'Franklin', 'Thereof', 'Bathe']   # 'Woodland': a word that starts with a direction letter
# a three-letter word: with its two blanks the raw block reaches MIN_REPORTABLE_UNUSED_LEN, so it is reportable as well
SHORT_MARKERS = ['QXZ']
# further shapes, on the intact variant only: starting with a direction letter, lower case, followed by a period, in brackets
SHAPE_MARKERS = ['Easton', 'Norton', 'Sutton', 'qxzvq', 'Qxzvk.', '(Qxzvk)']
_TRAPS = None


def trap_markers():
    """One foreign word per alphabetic literal run of the library's patterns, with the run *embedded* in it
    ('Qxpmxq', 'Qxsecxq', 'Qxlotxq', ...): a pattern that is not anchored at word boundaries must still not swallow it."""
    global _TRAPS
    if _TRAPS is None:
        from .c16 import alphabet, derive_alphabet
        alphabet()
        _TRAPS = ['Qx' + r + 'xq' for r in getattr(derive_alphabet, 'runs', []) if r.isalpha() and len(r) >= 2]
    return _TRAPS
MODES = [None, 'segment', 'sec_within', 'sec_colon_required', 'sec_colon_cautious', 'segment,sec_within', 'ocr_scrub',
         'TRS_desc', 'desc_STR', 'S_desc_TR', 'TR_desc_S', 'copy_all']
EXTRA_SEEDS = [
    'That part of the NE/4 of Section 14 of T154N-R97W lying north of the river',
    'Township 154 North, Range 97 West, of the 5th P.M. Sec 14: NE/4, Sec 15: Lots 1 - 3',
    'T154N-R97W Sec 14 NE/4, Sec 15 W/2',
    # the same Twp/Rge/Sec referred to by two separate section references (each with its own block), and by a range + a single
    'T154N-R97W Sec 14: NE/4, Sec 15: W/2, Sec 14: Lots 1, 2',
    'NE/4 of Sec 14, T154N-R97W, SW/4 of Sec 14, T154N-R97W',
    'T154N-R97W Sec 13 - 15: S/2, Sec 14: NE/4',
]
_p = None
# a marker that is followed, on the same line and within the reach of the meridian pattern ('.{0,25}' plus filler), by a
# P.M. designation may be discarded together with it (exempt by the statement); the predicate is deliberately a superset
PM_WINDOW = re.compile(r'(QXZV?|Easton|Norton|Sutton|qxzvq|Qxzvk|Zyxwvut|Garland|Woodland|Franklin|Thereof|Bathe|Qx[a-z]+xq)[^\n]{0,45}?(?<![A-Za-z])(P\.\s?M\.|Principal\s+Meridian)',
                       re.IGNORECASE)
CONNECTORS = {'the', 'of', 'in', 'and', 'all'}


def worker_init(tier):
    global _p
    _p = import_pytrs()
    warnings.simplefilter('ignore')


def all_seeds(tier='quick'):
    base = [t for _, _, t in soup.seeds()] + EXTRA_SEEDS
    if tier == 'thorough':
        # every layout x the remaining structures (3 Twp/Rge groups, recurring Twp/Rge) and two alternative renderings
        for layout in gen.LAYOUTS:
            for si in range(4, len(gen.STRUCTS)):
                base.append(gen.render(layout, gen.STRUCTS[si], {})[0])
            base.append(gen.render(layout, gen.STRUCTS[1], {'tr': 1, 'secw': 1, 'sep': 2})[0])
            base.append(gen.render(layout, gen.STRUCTS[2], {'tr': 2, 'sep': 1, 'blockrot': 4})[0])
    return base


def variants(seed):
    """-> list of (name, token list)"""
    toks = soup.tokenize(seed)
    out = [('intact', toks)]
    words = [i for i, t in enumerate(toks) if not t.isspace()]
    for i in words:
        out.append((f"del{i}", toks[:i] + toks[i + 1:]))
    out.append(('nocolon', [t for t in toks if t != ':']))
    for pos in (0, len(toks) // 2, len(toks)):
        out.append((f"stray{pos}", toks[:pos] + [' ', 'T1S-R2E', ' '] + toks[pos:]))
    out.append(('lead', ['Parcel', ' ', 'A', ' ', 'being', ' ', 'described', ' ', 'as', ':', ' '] + toks))
    out.append(('trail', toks + [',', ' ', 'containing', ' ', '160', ' ', 'acres', ' ', 'more', ' ', 'or', ' ', 'less']))
    return out


def units(tier):
    us = []
    for n in range(len(all_seeds(tier))):
        for half in range(4):
            us.append({'seed': n, 'half': half})
    return us


def space(tier):
    return {'bound': f"{len(all_seeds(tier))} seeds x (intact + every single token deletion + colons removed + 3 stray Twp/Rge + lead + trail) "
                     f"x every token boundary x {len(MARKERS)} markers x {len(MODES)} modes", 'caps_hit': []}


def parse(text, mode):
    if mode in ('TRS_desc', 'desc_STR', 'S_desc_TR', 'TR_desc_S', 'copy_all'):
        return _p.PLSSDesc(text, config=mode)
    return _p.PLSSDesc(text, config=mode)


def survives(d, word):
    if any(word in t.desc for t in d.tracts):
        return True
    for f in d.e_flags:
        if isinstance(f, str) and f.startswith('unused_desc<') and word in f:
            return True
    for fl in d.e_flag_lines:
        if isinstance(fl, tuple) and len(fl) == 2 and str(fl[0]).startswith('unused_desc<') and word in str(fl[1]):
            return True
    return False


def judge(acc, seed_n, vname, toks, pos, marker, mode, seen):
    text = ''.join(toks[:pos]) + ' ' + marker + ' ' + ''.join(toks[pos:])
    key = f"{mode}|{text}"
    if key in seen or (seen.part is not None and zlib.crc32(key.encode()) % 4 != seen.part):
        return
    seen.add(key)
    case = {'seed': seed_n, 'variant': vname, 'pos': pos, 'marker': marker, 'mode': mode, 'text': text}
    if PM_WINDOW.search(text):
        acc.extra['exempt_pm_window'] += 1
        return
    try:
        d = parse(text, mode)
    except Exception:  # noqa  (C03's subject)
        acc.case(key, 'EXC', nontrivial=False)
        acc.extra['exceptions_left_to_C03'] += 1
        return
    in_desc = any(marker in t.desc for t in d.tracts)
    ok = survives(d, marker)
    where = [i for i, t in enumerate(d.tracts) if marker in t.desc]
    acc.case(key, f"desc{where}/{len(d.tracts)}" if in_desc else ('flag' if ok else 'LOST'))
    acc.states += 1
    acc.transitions += 1
    if not ok:
        acc.violation('marker_lost', f"C04:marker_lost:{key}", case,
                      got=[[(t.trs, t.desc) for t in d.tracts], d.e_flags], exp=f"'{marker}' in a tract description or an unused_desc flag",
                      note=f"pp_desc={d.pp_desc!r}")
        return
    acc.guard('in_desc' if in_desc else 'in_unused_flag')


def judge_words(acc, seed_n, vname, toks, mode, seen):
    text = ''.join(toks)
    key = f"words|{mode}|{text}"
    if key in seen or (seen.part is not None and zlib.crc32(key.encode()) % 4 != seen.part):
        return
    seen.add(key)
    case = {'seed': seed_n, 'variant': vname, 'mode': mode, 'text': text, 'words': True}
    try:
        d = parse(text, mode)
        ref = _p.PLSSDesc(text, config='copy_all')
    except Exception:  # noqa
        acc.case(key, 'EXC', nontrivial=False)
        acc.extra['exceptions_left_to_C03'] += 1
        return
    # words of the text that are not part of a recognised Twp/Rge / section reference / P.M. designation:
    # taken from the description blocks of the generator vocabulary
    words = set()
    for b in gen.BLOCKS + ['That part of the', 'lying north of the river', 'W/2', 'containing', 'acres', 'Parcel', 'described']:
        if b in text:
            for w in re.findall(r"[A-Za-z/½¼0-9]+", b):
                if len(w) >= 4 and w.lower() not in CONNECTORS:
                    words.add(w)
    lost = sorted(w for w in words if w in d.pp_desc and not survives(d, w))
    acc.case(key, lost)
    acc.states += 1
    acc.transitions += 1
    if lost:
        acc.violation('block_word_lost', f"C04:block_word_lost:{key}", case, got=[[(t.trs, t.desc) for t in d.tracts], d.e_flags],
                      exp=f"words {lost} in a tract description or an unused_desc flag")
    elif words:
        acc.guard('block_words_tracked')


class Seen(set):
    def __init__(self, part):
        super().__init__()
        self.part = part


class SeenAll(set):
    part = property(lambda self: None)


def run_unit(unit, tier):
    acc = Acc()
    seed = all_seeds(tier)[unit['seed']]
    seen = Seen(unit['half'])
    vs = variants(seed)
    if tier == 'thorough' and unit['seed'] < 8:
        # second damage level: every variant of every 3rd single-deletion variant
        extra = []
        for vname, toks in vs[1:1 + 12:3]:
            for v2name, toks2 in variants(''.join(toks))[1:]:
                extra.append((vname + '+' + v2name, toks2))
        vs = vs + extra
    for vi, (vname, toks) in enumerate(vs):
        bounds = [i for i in range(len(toks) + 1) if i == 0 or i == len(toks) or toks[i - 1].isspace() or toks[i].isspace()
                  or not toks[i][0].isalnum() or not toks[i - 1][-1].isalnum()]
        for mode in MODES:
            judge_words(acc, unit['seed'], vname, toks, mode, seen)
            for pos in bounds:
                for marker in MARKERS:
                    judge(acc, unit['seed'], vname, toks, pos, marker, mode, seen)
                if vname in ('intact', 'nocolon', 'lead', 'trail'):
                    for marker in TAIL_MARKERS:
                        judge(acc, unit['seed'], vname, toks, pos, marker, mode, seen)
                    if 'sec_within' not in (mode or ''):
                        for marker in SHORT_MARKERS:
                            judge(acc, unit['seed'], vname, toks, pos, marker, mode, seen)
                if vname == 'intact':
                    for marker in SHAPE_MARKERS:
                        judge(acc, unit['seed'], vname, toks, pos, marker, mode, seen)
                if vname == 'intact' and mode in (None, 'segment', 'sec_within'):
                    for marker in trap_markers():
                        judge(acc, unit['seed'], vname, toks, pos, marker, mode, seen)
    return acc.result()


def replay(case):
    acc = Acc()
    seed = all_seeds('thorough')[case['seed']]
    vname = case['variant']
    if '+' in vname and not vname.startswith('stray'):
        first, second = vname.split('+', 1)
        toks = dict(variants(''.join(dict(variants(seed))[first])))[second]
    else:
        toks = dict(variants(seed))[vname]
    if case.get('words'):
        judge_words(acc, case['seed'], case['variant'], toks, case['mode'], SeenAll())
    else:
        judge(acc, case['seed'], case['variant'], toks, case['pos'], case['marker'], case['mode'], SeenAll())
    return acc.viol


def guards(info):
    g = info['guards']
    out = []
    for name in ('in_desc', 'in_unused_flag', 'block_words_tracked'):
        if not g.get(name):
            out.append(f"never observed: {name}")
    if not info['extra'].get('exempt_pm_window'):
        out.append('the P.M. exemption was never exercised')
    return out
