"""
C09 - every tract is well-formed and traceable to its source.

Same input space as C03 (token soup, damaged seeds, special strings x parse modes) plus a
`source` dimension; the oracle is an invariant on every tract of every result.
"""
import re
import warnings
import zlib

from ..core import Acc, import_pytrs
from .. import soup

ID = 'C09'
LEVEL = 'model_checking'
TECHNIQUE = ('breadth-first token-soup / damage-edit enumeration x parse modes x source tags on the real PLSSDesc; per-tract '
             'invariant oracle (standard or error-placeholder TRS, attribute decomposition, orig_desc / source / orig_index)')
LEVEL_TEXT = ('Every tract of every description in the C03 space (token soup depth 3/4 over 29 tokens, all damage edits of 16 seeds, '
              '80 special strings, x parse-mode deviations, x source in {None, str with comma, int, 0, empty str}) is checked against an '
              'independently written decomposition of its Twp/Rge/Sec string and against the parent object. The invariant is '
              'evaluated on every reachable result, including error, fallback and multi-section tracts.')
LEVEL_NOTE = ('Trusted: the anchored decomposition regex in mc/props/c09.py. Inputs that need more than 4 vocabulary tokens to '
              'produce a malformed tract are not covered.')
RULE = (
    "state = (text, parse mode, source tag) with texts generated as in C03 (generator automaton over token sequences / damage "
    "edits); every state is executed on PLSSDesc and the invariant is evaluated on each resulting tract. Non-trivial = states "
    "whose result has at least one tract with a non-error Twp/Rge or section, or more than one tract."
)
ASSUMPTIONS = [
    "orig_index is compared with the position in the list returned by the parse (creation order)",
]

STD = re.compile(r'(?P<twp>(?P<twp_num>[0-9]{1,3})(?P<ns>[ns])|XXXz)(?P<rge>(?P<rge_num>[0-9]{1,3})(?P<ew>[ew])|XXXz)(?P<sec>[0-9]{2}|XX)')
SOURCES = [None, 'doc,1', 7, 0, '']      # incl. falsy but meaningful tags (row 0, empty string)
_p = None


def worker_init(tier):
    global _p
    _p = import_pytrs()
    warnings.simplefilter('ignore')


NC_CALLS = [{}, {'layout': 'copy_all'}, {'segment': True}, {'parse_qq': True, 'clean_qq': True}, {'sec_within': True}]


def units(tier):
    return soup.plss_units(tier) + [{'k': 'noncommit', 'seed': n} for n in range(16)]


def judge_nc(acc, seed_n):
    """The tracts *returned* by a non-committing parse (the object keeps its own) obey the same invariants."""
    layout, si, text = soup.seeds()[seed_n]
    for src in SOURCES:
        for created in ('parsed', 'wait_to_parse'):
            for kw in NC_CALLS:
                key = f"nc|{created}|{src!r}|{sorted(kw.items())}|{text}"
                case = {'k': 'noncommit', 'seed': seed_n, 'text': text, 'source': src, 'created': created, 'kw': kw}
                try:
                    d = _p.PLSSDesc(text, source=src, wait_to_parse=(created == 'wait_to_parse'))
                    got = list(d.parse(commit=False, **kw))
                except Exception:  # noqa
                    acc.case(key, 'EXC', nontrivial=False)
                    acc.extra['exceptions_left_to_C03'] += 1
                    continue
                acc.case(key, [t.trs for t in got])
                acc.states += 1
                acc.transitions += 1
                for i, t in enumerate(got):
                    bad = check_tract(t, i, text, src)
                    if bad:
                        acc.violation(bad[0], f"C09:noncommit:{bad[0]}:{created}:{sorted(kw.items())}", case, got=bad[1],
                                      note=f"tract {i} of the list returned by parse(commit=False, ...)")
                        break
                else:
                    acc.guard('noncommit_checked')


def space(tier):
    return {'bound': soup.space_text(tier) + '; source tag rotates over 5 values by text', 'caps_hit': []}


def check_tract(t, i, text, src):
    """-> (class, detail) of the first broken invariant, or None"""
    m = STD.fullmatch(t.trs) if isinstance(t.trs, str) else None
    if not m:
        return 'malformed_trs', repr(t.trs)
    want = {
        'twp': m['twp'], 'rge': m['rge'], 'sec': m['sec'],
        'twp_num': int(m['twp_num']) if m['twp_num'] else None,
        'twp_ns': m['ns'], 'rge_num': int(m['rge_num']) if m['rge_num'] else None, 'rge_ew': m['ew'],
        'sec_num': int(m['sec']) if m['sec'].isdigit() else None,
        'twprge': m['twp'] + m['rge'],
        'twp_undef': False, 'rge_undef': False, 'sec_undef': False,
    }
    for a, w in want.items():
        g = getattr(t, a)
        if g != w:
            return 'wrong_decomposition', f"{a}: {g!r} != {w!r} for {t.trs}"
    if t.orig_desc != text:
        return 'orig_desc', repr(t.orig_desc)[:80]
    if t.source != src or type(t.source) is not type(src):
        return 'source', repr(t.source)
    if t.orig_index != i:
        return 'orig_index', f"{t.orig_index} at position {i}"
    if not isinstance(t.desc, str):
        return 'desc_type', repr(t.desc)
    return None


def judge(acc, text, mode):
    src = SOURCES[zlib.crc32(text.encode()) % len(SOURCES)]
    key = f"{mode[0]}|{text}"
    case = {'text': text, 'mode': mode[0], 'source': src}
    try:
        d = soup.parse(_p, text, mode, source=src)
        tracts = list(d.tracts)
    except Exception as e:  # noqa   (totality is C03's subject)
        acc.case(key, 'EXC', nontrivial=False)
        acc.extra['exceptions_left_to_C03'] += 1
        return
    obs = [t.trs for t in tracts]
    interesting = len(tracts) > 1 or any(o != 'XXXzXXXzXX' for o in obs)
    acc.case(key, obs, nontrivial=interesting)
    acc.states += 1
    acc.transitions += 1
    if d.source != src:
        acc.violation('parent_source', f"C09:parent_source:{key}", case, got=repr(d.source))
        return
    if d.orig_desc != text:
        acc.violation('parent_orig_desc', f"C09:parent_orig_desc:{key}", case, got=d.orig_desc)
        return
    for i, t in enumerate(tracts):
        bad = check_tract(t, i, text, src)
        if bad:
            acc.violation(bad[0], f"C09:{bad[0]}:{key}", case, got=bad[1], note=f"tract {i} of {len(tracts)}: {t.trs}")
            return
    if len(tracts) > 2:
        acc.guard('three_or_more_tracts')
    if any('XX' in o for o in obs):
        acc.guard('error_placeholder_seen')
    if any('XX' not in o for o in obs):
        acc.guard('fully_valid_seen')


def run_unit(unit, tier):
    acc = Acc()
    if unit.get('k') == 'noncommit':
        judge_nc(acc, unit['seed'])
        return acc.result()
    for text, mode in soup.unit_cases(unit, tier):
        judge(acc, text, mode)
    return acc.result()


def replay(case):
    acc = Acc()
    if case.get('k') == 'noncommit':
        judge_nc(acc, case['seed'])
        return acc.viol
    judge(acc, case['text'], soup.mode_by_name(case['mode']))
    return acc.viol


def guards(info):
    g = info['guards']
    out = []
    for name in ('three_or_more_tracts', 'error_placeholder_seen', 'fully_valid_seen', 'noncommit_checked'):
        if not g.get(name):
            out.append(f"never observed: {name}")
    return out
