"""
C20 - optional parse modes are conservative where they are not needed.

(a) every C01 rendering (<= 2 deviations quick, <= 3 thorough) x `segment`  -> same tracts as default;
(b) every section-first rendering with all colons present x both colon modes -> same tracts as default;
(c) the same with all colons removed: sec_colon_cautious -> default tracts + pulled_sec_without_colon
    warning; sec_colon_required -> one fallback tract carrying the whole text;
(d) sec_within: leading text x section / range / and-list x trailing text x Twp/Rge placement ->
    one tract per section described by lead + ' ' + trail, with a sec_within warning per tract when text
    had to be re-attached.
"""
import itertools
import warnings
import zlib

from ..core import Acc, import_pytrs
from .. import gen
from .c11 import edge_only

ID = 'C20'
LEVEL = 'model_checking'
TECHNIQUE = ('deviation-bounded enumeration of single-layout descriptions x {segment, colon modes, colons removed} and exhaustive '
             'enumeration of sec_within shapes; differential oracle against the default parse + constructed expectations')
LEVEL_TEXT = ('All renderings of the C01 generator with <= 2 (quick) / <= 3 (thorough) deviations are parsed with segment and, for the '
              'section-first layouts, with both colon modes with and without colons, and compared with the default parse of the same '
              'text; all 3 x 5 x 3 x 6 sec_within shapes have a constructed expected result. Chunk-boundary, re-attachment order and '
              'second-pass bugs need one Twp/Rge group more than the trivial case, which the 6 structures provide.')
LEVEL_NOTE = ('Trusted: the default parse of the same text (validated against the abstract description by C01) as the reference for '
              '(a)-(c); mc/gen.py; the lead/trail vocabulary of (d), whose leads do not end in a connector word.')
RULE = (
    "state = (layout, structure, rendering, mode[, colons removed]) | (lead, section group, trail, placement); transitions as in C01 "
    "plus the mode choice; canonicalised by (text, mode); every state executed. Non-trivial = every distinct (text, mode)."
)
ASSUMPTIONS = [
    "descriptions with a partial subset of colons removed are explored only under the C03/C09/C10 invariants (the statement defines no "
    "expected tracts for them)",
]

MAXDEV = {'quick': 2, 'thorough': 3}
_p = None

LEADS = ['That part of the NE/4', 'A strip of land 100 feet wide across', '']
TRAILS = ['lying north of the river', 'described as follows: beginning at a point', '']
SECS = [('Section 14', [14]), ('Sec 1 - 3', [1, 2, 3]), ('Sections 5 and 6', [5, 6]), ('Sec. 36', [36]), ('Secs 9, 10', [9, 10])]
PLACES = ['before', 'before_nl', 'after_sec', 'of_after_sec', 'end', 'in_after_sec', 'between', 'in_between', 'split_trail']
TRAIL2 = 'containing 40 acres'        # second trailing block; sorts before both trailing texts
TR = 'T154N-R97W'


def worker_init(tier):
    global _p
    _p = import_pytrs()
    warnings.simplefilter('ignore')


def units(tier):
    us = []
    for layout in gen.LAYOUTS:
        for si in range(len(gen.STRUCTS)):
            us.append({'k': 'modes', 'layout': layout, 'struct': si})
    us.append({'k': 'sec_within'})
    us.append({'k': 'embedded'})
    return us


def space(tier):
    return {'bound': f"C01 renderings with <= {MAXDEV[tier]} deviations ({gen.count_renderings(MAXDEV[tier])} per layout x structure) x "
                     f"{{segment; colon modes with / without colons for section-first layouts}}; sec_within: {len(LEADS)} x {len(SECS)} "
                     f"(+ {len(EMB_TMPLS)} x {len(EMB_REFS)} descriptions with an embedded 'Section N of Twp/Rge' reference x segment) "
                     f"x {len(TRAILS)} x {len(PLACES)} shapes", 'caps_hit': []}


def tr(d):
    return [(t.trs, t.desc) for t in d.tracts]


def judge_modes(acc, layout, si, r, text, seen):
    if text in seen:
        return
    seen.add(text)
    case0 = {'layout': layout, 'struct': si, 'rendering': r, 'text': text}
    try:
        base = _p.PLSSDesc(text)
        b = tr(base)
    except Exception:  # noqa
        acc.extra['exceptions_left_to_C03'] += 1
        return
    # (a) segment
    key = f"segment|{text}"
    try:
        d = _p.PLSSDesc(text, config='segment')
        acc.case(key, tr(d))
        acc.states += 1
        if tr(d) != b:
            acc.violation('segment_changes_tracts', f"C20:segment_changes_tracts:{text}", dict(case0, mode='segment'), got=tr(d), exp=b)
        else:
            acc.guard('segment_same')
    except Exception as ex:  # noqa
        acc.case(key, 'EXC')
        acc.violation('exception', f"C20:exception:{key}", dict(case0, mode='segment'), got=f"{type(ex).__name__}: {ex}")
    if layout not in ('TRS_desc', 'S_desc_TR'):
        return
    # (b) colons present
    for mode in ('sec_colon_required', 'sec_colon_cautious'):
        key = f"{mode}|{text}"
        try:
            d = _p.PLSSDesc(text, config=mode)
        except Exception as ex:  # noqa
            acc.case(key, 'EXC')
            acc.violation('exception', f"C20:exception:{key}", dict(case0, mode=mode), got=f"{type(ex).__name__}: {ex}")
            continue
        acc.case(key, tr(d))
        acc.states += 1
        if tr(d) != b:
            acc.violation('colon_mode_changes_tracts', f"C20:colon_mode_changes_tracts:{mode}:{text}", dict(case0, mode=mode),
                          got=tr(d), exp=b)
        elif any(str(f).startswith('pulled_sec_without_colon') for f in d.w_flags):
            acc.violation('spurious_pulled_sec_warning', f"C20:spurious_pulled_sec_warning:{text}", dict(case0, mode=mode), got=d.w_flags)
        else:
            acc.guard('colon_mode_same')
    # (c) all colons removed
    nc = text.replace(' :', '').replace(':', '')
    if nc in seen:
        return
    seen.add(nc)
    case1 = dict(case0, text=nc, colons_removed=True)
    try:
        base = _p.PLSSDesc(nc)
        b = tr(base)
    except Exception:  # noqa
        acc.extra['exceptions_left_to_C03'] += 1
        return
    def routes(mode):
        """(name, function -> parsed PLSSDesc).  The mode given by config at creation, and - for renderings with <= 1 deviation -
        through the other channels, incl. a keyword on an object that is configured with the *other* colon mode."""
        other = 'sec_colon_cautious' if mode == 'sec_colon_required' else 'sec_colon_required'
        kw = {'sec_colon_required': True} if mode == 'sec_colon_required' else {'sec_colon_required': False, 'sec_colon_cautious': True}
        out = [('config', lambda: _p.PLSSDesc(nc, config=mode))]
        if len(r) <= 1:
            def via_kw(cfg):
                d_ = _p.PLSSDesc(nc, config=cfg)
                d_.parse(**kw)
                return d_

            def via_assign():
                d_ = _p.PLSSDesc(nc, wait_to_parse=True)
                d_.config = mode
                d_.parse()
                return d_
            out += [('keyword', lambda: via_kw(None)), ('keyword_on_' + other, lambda: via_kw(other)), ('config_assigned', via_assign)]
        return out

    for rname, run in routes('sec_colon_cautious'):
        key = f"sec_colon_cautious|{rname}|{nc}"
        case2 = dict(case1, mode='sec_colon_cautious', route=rname)
        try:
            d = run()
            acc.case(key, tr(d))
            acc.states += 1
            if tr(d) != b:
                acc.violation('cautious_differs_from_default', f"C20:cautious_differs_from_default:{rname}:{nc}", case2, got=tr(d), exp=b)
            elif not any(isinstance(f, str) and f.startswith('pulled_sec_without_colon') for f in d.w_flags):
                acc.violation('cautious_warning_missing', f"C20:cautious_warning_missing:{rname}:{nc}", case2,
                              got=d.w_flags, exp='pulled_sec_without_colon<...>')
            else:
                acc.guard('cautious_second_pass')
        except Exception as ex:  # noqa
            acc.case(key, 'EXC')
            acc.violation('exception', f"C20:exception:{key}", case2, got=f"{type(ex).__name__}: {ex}")
    for rname, run in routes('sec_colon_required'):
        key = f"sec_colon_required|{rname}|{nc}"
        case2 = dict(case1, mode='sec_colon_required', route=rname)
        try:
            d = run()
            acc.case(key, tr(d))
            acc.states += 1
            if len(d.tracts) != 1 or d.tracts[0].desc != d.pp_desc:
                acc.violation('required_not_single_fallback', f"C20:required_not_single_fallback:{rname}:{nc}", case2,
                              got=tr(d), exp=['<one tract>', d.pp_desc])
            else:
                acc.guard('required_fallback')
        except Exception as ex:  # noqa
            acc.case(key, 'EXC')
            acc.violation('exception', f"C20:exception:{key}", case2, got=f"{type(ex).__name__}: {ex}")


def sw_text(lead, sec, trail, place):
    lead_sec = f"{lead} of {sec}" if lead else sec
    if place == 'before':
        t = f"{TR} {lead_sec} {trail}"
    elif place == 'before_nl':
        t = f"{TR}\n{lead_sec} {trail}"
    elif place == 'after_sec':
        t = f"{lead_sec}, {TR}, {trail}"
    elif place == 'of_after_sec':
        t = f"{lead_sec} of {TR} {trail}"
    elif place == 'in_after_sec':
        t = f"{lead_sec} in {TR}, {trail}"
    elif place == 'split_trail':
        t = f"{lead_sec} {trail} in {TR}, {TRAIL2}"
    elif place == 'between':
        t = f"{lead}, {TR}, {sec} {trail}"
    elif place == 'in_between':
        t = f"{lead} in {TR}, {sec} {trail}"
    else:
        t = f"{lead_sec} {trail}, {TR}"
    return t.strip().rstrip(',').strip()


def judge_sw(acc, li, si, ti, place):
    lead, (sec, nums), trail = LEADS[li], SECS[si], TRAILS[ti]
    if not lead and not trail:
        return
    if not lead and place in ('between', 'in_between'):
        return
    if place == 'split_trail' and not (lead and trail):
        return
    if not lead and place in ('after_sec', 'of_after_sec', 'in_after_sec'):
        # 'Section 14, T154N-R97W, <text>' is none of the documented layouts and the section is not *embedded* (nothing
        # precedes it): outside the statement
        return
    text = sw_text(lead, sec, trail, place)
    key = f"sec_within|{text}"
    case = {'sw': True, 'lead': li, 'sec': si, 'trail': ti, 'place': place, 'text': text}
    want_desc = ' '.join(x for x in (lead, trail) if x)
    if place == 'split_trail':
        want_desc += ' ' + TRAIL2
    exp = [(f"154n97w{n:02d}", want_desc) for n in nums]
    try:
        d = _p.PLSSDesc(text, config='sec_within')
    except Exception as ex:  # noqa
        acc.case(key, 'EXC')
        acc.violation('exception', f"C20:exception:{key}", case, got=f"{type(ex).__name__}: {ex}")
        return
    acc.case(key, tr(d))
    acc.states += 1
    acc.transitions += 1
    if tr(d) != exp:
        acc.violation('sec_within_tracts', f"C20:sec_within_tracts:{text}", case, got=[tr(d), d.w_flags, d.e_flags], exp=exp)
        return
    if lead and trail:
        for t in d.tracts:
            flag = f"sec_within<{t.trs}>"
            if flag not in d.w_flags or flag not in t.w_flags:
                acc.violation('sec_within_warning_missing', f"C20:sec_within_warning_missing:{text}", case, got=d.w_flags, exp=flag)
                return
        if any(str(f).startswith('unused_desc') for f in d.e_flags):
            acc.violation('sec_within_left_unused', f"C20:sec_within_left_unused:{text}", case, got=d.e_flags)
            return
        acc.guard('sec_within_reattached')
    else:
        acc.guard('sec_within_not_needed')


# Section-first descriptions whose description blocks *mention* another section together with its Twp/Rge
# ('... Section 15 of T154N-R97W ...'): the library rules such a Twp/Rge out as a layout marker (twprge_ignored);
# they are still single-layout descriptions, so `segment` must not change the tracts (the colon modes are not judged here: the embedded
# section has no colon).
EMB_REFS = ['Section 15 of T154N-R97W', 'Sec 15 in T154N-R97W', 'Sec 15, T154N-R97W', 'Section 15 lying within T155N-R98W',
            'Secs 15 - 16 of T154N-R97W', 'Sec. 15, all of T154N-R97W', 'Section 15 that lies within T1S-R2E']
EMB_TMPLS = [('T154N-R97W Sec 14: NE/4 lying north of {r}, Sec 16: ALL', 2),
             ('T154N-R97W\nSec 14: NE/4, less that part in {r}\nSec 16: ALL', 2),
             ('T154N-R97W Sec 14: NE/4 lying north of {r}; T155N-R97W Sec 1: ALL', 2),
             ('T154N-R97W Sec 14: NE/4 lying within {r}; Sec 20: Lot 1 north of {r}; T155N-R97W Sec 1: ALL, Sec 2: that part in {r}', 4),
             ('T154N-R97W Sec 14: That part of the NE/4 of {r} lying north', 1)]


def judge_embedded(acc, ti, ri):
    text = EMB_TMPLS[ti][0].format(r=EMB_REFS[ri])
    case = {'emb': True, 'tmpl': ti, 'ref': ri, 'text': text}
    try:
        d0 = _p.PLSSDesc(text)
        b = tr(d0)
    except Exception:  # noqa
        acc.extra['exceptions_left_to_C03'] += 1
        return
    if d0.e_flags or len(b) != EMB_TMPLS[ti][1] or d0.current_layout != 'TRS_desc':
        # the default parse does not read this text as the intended single-layout description: not a member of the family
        acc.extra['embedded_not_single_layout'] += 1
        return
    for mode in ('segment', 'segment,ocr_scrub'):
        key = f"emb|{mode}|{text}"
        try:
            d = _p.PLSSDesc(text, config=mode)
        except Exception as ex:  # noqa
            acc.case(key, 'EXC')
            acc.violation('exception', f"C20:exception:{key}", dict(case, mode=mode), got=f"{type(ex).__name__}: {ex}")
            continue
        acc.case(key, tr(d))
        acc.states += 1
        acc.transitions += 1
        if tr(d) != b:
            cls = 'segment_changes_tracts' if mode.startswith('segment') else 'colon_mode_changes_tracts'
            acc.violation(cls, f"C20:{cls}:{mode}:{text}", dict(case, mode=mode), got=tr(d), exp=b)
        else:
            acc.guard('embedded_reference_same')


def run_unit(unit, tier):
    acc = Acc()
    if unit['k'] == 'embedded':
        for ti in range(len(EMB_TMPLS)):
            for ri in range(len(EMB_REFS)):
                judge_embedded(acc, ti, ri)
        return acc.result()
    if unit['k'] == 'sec_within':
        for li, si, ti, place in itertools.product(range(len(LEADS)), range(len(SECS)), range(len(TRAILS)), PLACES):
            judge_sw(acc, li, si, ti, place)
        return acc.result()
    layout, si = unit['layout'], unit['struct']
    seen = set()
    for level, r in gen.renderings(MAXDEV[tier]):
        if layout in ('TRS_desc', 'S_desc_TR') and r.get('conn'):
            continue    # the desc-section connector does not occur in section-first layouts
        if layout not in ('TRS_desc', 'S_desc_TR') and r.get('colon'):
            continue    # ... and the colon does not occur in description-first layouts
        acc.transitions += 1
        res = gen.render(layout, gen.STRUCTS[si], r)
        if res is None:
            continue
        judge_modes(acc, layout, si, r, res[0], seen)
    return acc.result()


def replay(case):
    acc = Acc()
    if case.get('emb'):
        judge_embedded(acc, case['tmpl'], case['ref'])
        return [v for v in acc.viol if v['case'].get('mode') == case.get('mode')] or acc.viol
    if case.get('sw'):
        judge_sw(acc, case['lead'], case['sec'], case['trail'], case['place'])
        return acc.viol
    res = gen.render(case['layout'], gen.STRUCTS[case['struct']], case['rendering'])
    if res is None:
        return []
    judge_modes(acc, case['layout'], case['struct'], case['rendering'], res[0], set())
    return [v for v in acc.viol if v['case'].get('mode') == case.get('mode')] or acc.viol


def guards(info):
    g = info['guards']
    out = []
    for name in ('segment_same', 'colon_mode_same', 'cautious_second_pass', 'required_fallback', 'sec_within_reattached',
                 'sec_within_not_needed', 'embedded_reference_same'):
        if not g.get(name):
            out.append(f"never observed: {name}")
    return out
