"""
C01 - descriptions in the four documented layouts parse back to exactly their tracts.

Generator automaton over abstract descriptions (layout x structure) and rendering choices,
explored breadth-first by number of deviations from the default rendering; every rendered
text is parsed by the real PLSSDesc and compared with the abstract description it was
rendered from; then the library's own pretty_desc() rendering is parsed again.
"""
import re
import zlib

from ..core import Acc, import_pytrs
from .. import gen

ID = 'C01'
LEVEL = 'model_checking'
TECHNIQUE = ('deviation-bounded breadth-first enumeration of renderings (spelling, keyword, connector, separator, direction, '
             'number, block choices) of abstract descriptions in the 4 layouts; reference model = the abstract description')
LEVEL_TEXT = ('4 layouts x 6 structures (1-3 Twp/Rge groups, 1-3 section groups: single / and-list / range) rendered with every '
              'combination of <= 2 (quick) / <= 3 (thorough) deviations from the default rendering over 11 rendering dimensions '
              '(10 Twp/Rge spellings, 4 direction mixes, 4 number classes, 3 section-number classes, 8 section keywords, 5 and- and '
              '9 through-connectors (incl. capitalised words), 3 desc-section connectors, 10 separators (comma, semicolon, blank, tab, LF, CRLF, paragraph break), 11 block rotations (incl. a block that starts with a number), 5 colon spacings). The oracle knows the intended '
              'tracts, layout and the absence of error flags; the pretty_desc() round trip is a second differential leg.')
LEVEL_NOTE = ('Trusted: mc/gen.py renderer (its alphabet only contains spellings the repository documents; range "2" only with an '
              'explicit R). Renderings with more deviations than the bound are not explored.')
RULE = (
    "state = (layout, structure, partial assignment of the 11 rendering dimensions); transition = deviate one more dimension from "
    "its default; states are canonicalised by the rendered text (two derivations that render to the same text are one state); every "
    "state is complete and executed: PLSSDesc(text) and PLSSDesc(pretty_desc). Non-trivial = every distinct text."
)
ASSUMPTIONS = [
    "descriptions outside the generator's structures (more than 3 Twp/Rge groups, 4+ section groups per Twp/Rge) are not explored",
    "description blocks are taken from a 10-element vocabulary that contains no Twp/Rge, no section word, does not start with a "
    "digit and does not end in a connector word that cleanup_desc strips",
]

MAXDEV = {'quick': 2, 'thorough': 3}
K = {'quick': 2, 'thorough': 8}
_p = None


def worker_init(tier):
    global _p
    _p = import_pytrs()


_TRAPS = None


def trap_blocks():
    """Description blocks built around every alphabetic literal run of the library's patterns ('sec', 'section', 'lot', 'township',
    'north', 'thru' ...): as the end of a longer word followed by a number, as the start of a longer word (in the middle and at the very start of the
    block), inside a word, and as the end of a word that ends the block.  None of them is a Twp/Rge or section reference."""
    global _TRAPS
    if _TRAPS is None:
        from .c16 import alphabet, derive_alphabet
        alphabet()
        runs = [r for r in getattr(derive_alphabet, 'runs', []) if r.isalpha() and len(r) >= 2]
        _TRAPS = []
        for r in runs:
            _TRAPS += [f"Parcel along the x{r} 50 feet wide", f"Parcel along the {r}x line", f"Parcel in the x{r}x tract", f"Parcel x{r}",
                       f"{r.capitalize()}ond Addition to the city"]        # ... and as the start of the block's first word ('Second ...')
    return _TRAPS


TRAP_STRUCTS = (0, 1)


def units(tier):
    us = [{'traps': True, 'layout': layout, 'struct': si} for layout in gen.LAYOUTS for si in TRAP_STRUCTS]
    for li, layout in enumerate(gen.LAYOUTS):
        for si in range(len(gen.STRUCTS)):
            for part in range(K[tier]):
                us.append({'layout': layout, 'struct': si, 'part': part, 'of': K[tier]})
    return us


def space(tier):
    n = gen.count_renderings(MAXDEV[tier])
    return {'bound': f"<= {MAXDEV[tier]} deviations over 11 rendering dimensions ({n} renderings per layout x structure), "
                     f"{len(gen.LAYOUTS)} layouts x {len(gen.STRUCTS)} structures",
            'caps_hit': []}


def norm_desc(s):
    return re.sub(r'\n[ \t]+', '\n', s)


def judge(acc, layout, si, r, text, exp):
    case = {'layout': layout, 'struct': si, 'rendering': r, 'text': text}
    try:
        d = _p.PLSSDesc(text)
        got = [(t.trs, t.desc) for t in d.tracts]
        lay = d.current_layout
        ef = list(d.e_flags)
    except Exception as e:  # noqa
        acc.case(text, 'EXC')
        acc.violation('exception', f"C01:exception:{text}", case, got=f"{type(e).__name__}: {e}")
        return
    acc.case(text, got)
    acc.states += 1
    if got != exp:
        acc.violation('wrong_tracts', f"C01:wrong_tracts:{text}", case, got=got, exp=exp)
        return
    if lay != layout:
        acc.violation('wrong_layout', f"C01:wrong_layout:{text}", case, got=lay, exp=layout)
        return
    if ef:
        acc.violation('error_flag', f"C01:error_flag:{text}", case, got=ef, exp=[])
        return
    acc.guard('layout_' + layout)
    # second leg: pretty_desc round trip
    try:
        pretty = d.pretty_desc()
        d2 = _p.PLSSDesc(pretty)
        got2 = [(t.trs, norm_desc(t.desc)) for t in d2.tracts]
        ef2 = list(d2.e_flags)
    except Exception as e:  # noqa
        acc.violation('pretty_exception', f"C01:pretty_exception:{text}", case, got=f"{type(e).__name__}: {e}")
        return
    exp2 = [(a, norm_desc(b)) for a, b in exp]
    if got2 != exp2 or ef2:
        acc.violation('pretty_roundtrip', f"C01:pretty_roundtrip:{text}", case, got=[pretty, got2, ef2], exp=exp2)
        return
    if d2.current_layout != 'TRS_desc':
        acc.violation('pretty_layout', f"C01:pretty_layout:{text}", case, got=d2.current_layout, exp='TRS_desc')
        return
    acc.guard('pretty_ok')
    if len(exp) > 3:
        acc.guard('multi_tract')


def run_unit(unit, tier):
    acc = Acc()
    layout, si = unit['layout'], unit['struct']
    struct = gen.STRUCTS[si]
    seen = set()
    if unit.get('traps'):
        for bi, block in enumerate(trap_blocks()):
            res = gen.render(layout, struct, {}, blocks=[block, 'NE/4'])
            if res is None:
                continue
            text, exp = res
            acc.transitions += 1
            judge(acc, layout, si, {'trap_block': block}, text, exp)
            acc.guard('trap_blocks')
        return acc.result()
    for level, r in gen.renderings(MAXDEV[tier]):
        if layout in ('TRS_desc', 'S_desc_TR') and r.get('conn'):
            continue    # the desc-section connector does not occur in section-first layouts
        if layout not in ('TRS_desc', 'S_desc_TR') and r.get('colon'):
            continue    # ... and the colon does not occur in description-first layouts    # the desc-section connector does not occur in section-first layouts
        acc.transitions += 1
        res = gen.render(layout, struct, r)
        if res is None:
            acc.extra['outside_alphabet'] += 1
            continue
        text, exp = res
        if zlib.crc32(text.encode()) % unit['of'] != unit['part'] or text in seen:
            continue
        seen.add(text)
        acc.extra[f'level{level}'] += 1
        judge(acc, layout, si, r, text, exp)
    return acc.result()


def replay(case):
    acc = Acc()
    if 'trap_block' in case['rendering']:
        res = gen.render(case['layout'], gen.STRUCTS[case['struct']], {}, blocks=[case['rendering']['trap_block'], 'NE/4'])
    else:
        res = gen.render(case['layout'], gen.STRUCTS[case['struct']], case['rendering'])
    if res is None:
        return []
    text, exp = res
    judge(acc, case['layout'], case['struct'], case['rendering'], text, exp)
    return acc.viol


def guards(info):
    g = info['guards']
    out = []
    for lay in gen.LAYOUTS:
        if not g.get('layout_' + lay):
            out.append(f"layout never deduced: {lay}")
    for name in ('pretty_ok', 'multi_tract', 'trap_blocks'):
        if not g.get(name):
            out.append(f"never observed: {name}")
    return out
