"""
C05 - elided lists of sections and lots expand to exactly the numbers they denote.

Generator automaton: a list is a sequence of items (single | ascending range | descending range |
degenerate range) rendered with a through-spelling, an and-spelling, a keyword, optional keyword
repetition, optional zero padding and (lots) an optional acreage on the rightmost lot.  Full product
of renderings for the shortest sequences, a bounded number of rendering deviations for longer ones.
Observers: find_sec, PLSSDesc(...).tracts, Tract(...).lots/.ilots/.w_flags.  Reference model:
concatenation of range(a, b +/- 1, +/- 1) per item.
"""
import itertools
import warnings

from ..core import Acc, import_pytrs

ID = 'C05'
LEVEL = 'model_checking'
TECHNIQUE = ('bounded exhaustive enumeration of item sequences x connective / keyword renderings on find_sec, PLSSDesc and Tract; '
             'reference model = concatenated Python ranges')
LEVEL_TEXT = ('All sequences of up to 3 (quick) / 4 (thorough) items from a pool that forces overlaps, duplicates, descending and '
              'degenerate ranges and 1-3 digit numbers, rendered with every combination of 15 through-spellings, 16 and-spellings (incl. upper-case and capitalised words, and lists wrapped onto the next line before or after the connective), 11/8 '
              'keywords, keyword repetition and zero padding for the shortest sequences and every combination of <= 2 (3) '
              'rendering deviations for longer ones, through three observers. Expansion bugs (off-by-one at either end, direction, lost reset of the '
              '"through" state, wrong end position) show with <= 3 items.')
LEVEL_NOTE = ('Trusted: the range-concatenation model. For a degenerate range "a - a" the non-sequential warning is not judged '
              '(the statement only speaks of descending ranges).')
RULE = (
    "state = (kind, item sequence, rendering choices); transitions append an item or deviate one rendering dimension; states are "
    "canonicalised by (kind, rendered text); every state is executed on all observers of its kind. Non-trivial = every distinct text "
    "whose expansion has >= 2 numbers."
)
ASSUMPTIONS = [
    "sequences of more than 4 items and connective spellings outside the 15 + 16 listed are not explored",
]

THRU = [' - ', '-', ' through ', ' thru ', ' to ', '–', ' thru. ', ' THROUGH ', ' Thru ', ' TO ', ' Through ',
        '\nthrough ', ' through\n', ' -\n', '\n- ']      # the last four: list wrapped onto the next line before / after the connective
AND = [', ', ' and ', ' & ', ', and ', ',', ';', ': ', '. ', ' / ', ', & ', ' AND ', ', And ',
       '\nand ', ' and\n', ',\n', '\n& ']
KW = {'sec': ['Sec ', 'Section ', 'Secs ', 'Sections ', 'Sec. ', 'Secs. ', '§ ', 'Sec', 'Sect. ', 'SECTIONS ', 'sections '],
      'lot': ['Lot ', 'Lots ', 'L', 'L. ', 'Lt ', 'Lot', 'LOTS ', 'lots ']}
ITEMS = [('s', 3), ('s', 14), ('r', 1, 3), ('r', 9, 11), ('r', 5, 3), ('r', 12, 10), ('s', 7), ('r', 2, 2)]
EXTRA = {'sec': [('s', 36), ('r', 98, 99), ('r', 36, 34), ('s', 1)],
         'lot': [('s', 100), ('r', 998, 999), ('r', 101, 99), ('s', 999)]}
DIMS = ('thru', 'and', 'kw', 'rep', 'pad', 'acre')
_p = None


def worker_init(tier):
    global _p
    _p = import_pytrs()
    warnings.simplefilter('ignore')


def expand(it):
    if it[0] == 's':
        return [it[1]]
    a, b = it[1], it[2]
    return list(range(a, b + 1)) if a <= b else list(range(a, b - 1, -1))


def dim_sizes(kind):
    return {'thru': len(THRU), 'and': len(AND), 'kw': len(KW[kind]), 'rep': 3, 'pad': 2,
            'acre': 2 if kind == 'lot' else 1}


def render(kind, seq, r):
    thru, andw, kw = THRU[r.get('thru', 0)], AND[r.get('and', 0)], KW[kind][r.get('kw', 0)]
    rep = r.get('rep', 0)       # 0: keyword once; 1: before every item; 2: also after the through-word
    pad = r.get('pad', 0)

    def num(n):
        return f"{n:02d}" if pad else str(n)
    parts = []
    for i, it in enumerate(seq):
        k = kw if (i == 0 or rep >= 1) else ''
        if it[0] == 's':
            s = k + num(it[1])
        else:
            k2 = kw if rep == 2 else ''
            s = f"{k}{num(it[1])}{thru}{k2}{num(it[2])}"
        parts.append(s)
    txt = andw.join(parts)
    if r.get('acre'):
        txt += '(40.25)'
    return txt


def max_dev(tier, L):
    """None = full product of the rendering dimensions."""
    if tier == 'quick':
        return {1: 3, 2: 2}.get(L, 2)
    return {1: None, 2: None, 3: 3}.get(L, 2)


def renderings(kind, maxdev):
    sizes = dim_sizes(kind)
    dims = [d for d in DIMS if sizes[d] > 1]
    if maxdev is None:
        for choice in itertools.product(*[range(sizes[d]) for d in dims]):
            yield {d: c for d, c in zip(dims, choice) if c}
    else:
        for level in range(0, maxdev + 1):
            for ds in itertools.combinations(dims, level):
                for choice in itertools.product(*[range(1, sizes[d]) for d in ds]):
                    yield dict(zip(ds, choice))


def units(tier):
    us = []
    lmax = 3 if tier == 'quick' else 4
    for kind in ('sec', 'lot'):
        pool = ITEMS + EXTRA[kind]
        us.append({'kind': kind, 'L': 1, 'first': None})
        for f in range(len(pool)):
            us.append({'kind': kind, 'L': 2, 'first': f})
        for L in range(3, lmax + 1):
            for f in range(len(ITEMS)):
                for g in range(len(ITEMS)):
                    us.append({'kind': kind, 'L': L, 'first': [f, g]})
    us.append({'two': True})
    return us


def space(tier):
    return {'bound': f"item sequences of length <= {3 if tier == 'quick' else 4}; rendering deviations per length "
                     f"{ {L: (max_dev(tier, L) if max_dev(tier, L) is not None else 'full product') for L in range(1, (3 if tier == 'quick' else 4) + 1)} } "
                     f"(pool of {len(ITEMS) + 4} items for length <= 2, {len(ITEMS)} items beyond)",
            'caps_hit': []}


def in_alphabet(kind, seq, r):
    """Renderings that no documentation / regex comment presents as supported are not part of the alphabet."""
    kw = KW[kind][r.get('kw', 0)]
    if kind == 'sec' and AND[r.get('and', 0)] == ': ':
        # a colon *ends* a section reference ('Sec 14: <description>', the documented Twp/Rge-Sec-desc layout); the statement
        # lists commas, 'and' / '&', 'through'-style words and a repeated keyword as list connectives, not the colon
        return False
    return True


def judge(acc, kind, seq, r, text, seen):
    if text in seen or not in_alphabet(kind, seq, r):
        return
    seen.add(text)
    exp = [x for it in seq for x in expand(it)]
    desc_range = any(it[0] == 'r' and it[1] > it[2] for it in seq)
    degenerate = any(it[0] == 'r' and it[1] == it[2] for it in seq)
    key = f"{kind}|{text}"
    case = {'kind': kind, 'seq': [list(i) for i in seq], 'rendering': r, 'text': text}
    try:
        if kind == 'sec':
            e = [f"{x:02d}" for x in exp]
            got_find = _p.find_sec(text)
            d = _p.PLSSDesc('T154N-R97W ' + text + ': NE/4')
            got_tracts = [(t.sec, t.desc) for t in d.tracts]
            wf = list(d.w_flags)
            d2 = _p.PLSSDesc('NE/4 of ' + text + ', T154N-R97W')
            obs = {'find_sec': got_find, 'tracts': got_tracts, 'tracts_desc_STR': [(t.trs, t.desc) for t in d2.tracts],
                   'wf2': list(d2.w_flags)}
        else:
            e = [f"L{x}" for x in exp]
            t = _p.Tract(text, parse_qq=True)
            obs = {'lots': t.lots, 'ilots': t.ilots, 'qqs': t.qqs}
            wf = list(t.w_flags)
    except Exception as ex:  # noqa
        acc.case(key, 'EXC', nontrivial=len(exp) > 1)
        acc.violation('exception', f"C05:exception:{key}", case, got=f"{type(ex).__name__}: {ex}")
        return
    acc.case(key, obs, nontrivial=len(exp) > 1)
    acc.states += 1
    if kind == 'sec':
        if obs['find_sec'] != e:
            acc.violation('find_sec', f"C05:find_sec:{text}", case, got=obs['find_sec'], exp=e)
            return
        if [s for s, _ in obs['tracts']] != e:
            acc.violation('plssdesc_sections', f"C05:plssdesc_sections:{text}", case, got=[s for s, _ in obs['tracts']], exp=e)
            return
        if any(dsc != 'NE/4' for _, dsc in obs['tracts']):
            acc.violation('plssdesc_shared_desc', f"C05:plssdesc_shared_desc:{text}", case, got=obs['tracts'])
            return
        if obs['tracts_desc_STR'] != [(f"154n97w{x}", 'NE/4') for x in e]:
            acc.violation('plssdesc_sections_desc_STR', f"C05:plssdesc_sections_desc_STR:{text}", case, got=obs['tracts_desc_STR'],
                          exp=[(f"154n97w{x}", 'NE/4') for x in e])
            return
        if desc_range and 'nonsequential_sections' not in obs['wf2']:
            acc.violation('nonsequential_warning_missing', f"C05:nonsequential_warning_missing:desc_STR:{text}", case, got=obs['wf2'])
            return
        flag = 'nonsequential_sections'
    else:
        if obs['lots'] != e:
            acc.violation('lots', f"C05:lots:{text}", case, got=obs['lots'], exp=e)
            return
        if obs['ilots'] != exp:
            acc.violation('ilots', f"C05:ilots:{text}", case, got=obs['ilots'], exp=exp)
            return
        if obs['qqs']:
            acc.violation('lots_spurious_qqs', f"C05:lots_spurious_qqs:{text}", case, got=obs['qqs'], exp=[])
            return
        flag = 'nonsequential_lots'
    has = flag in wf
    if desc_range and not has:
        acc.violation('nonsequential_warning_missing', f"C05:nonsequential_warning_missing:{text}", case, got=wf, exp=flag)
        return
    if has and not desc_range and not degenerate:
        acc.violation('nonsequential_warning_spurious', f"C05:nonsequential_warning_spurious:{text}", case, got=wf)
        return
    if desc_range:
        acc.guard('descending_seen')
    if len(set(exp)) < len(exp):
        acc.guard('duplicates_kept')


# Two separate lot lists in one tract description (an aliquot between them), the second one starting with - or repeating - the text of
# the first: each list still denotes exactly its own expansion, in reading order.
TWO_LISTS = [('Lot 1', [1]), ('Lot 10', [10]), ('Lots 1 - 3', [1, 2, 3]), ('Lots 1 - 30', list(range(1, 31))), ('Lot 7', [7]),
             ('Lot 7 thru 9', [7, 8, 9]), ('Lots 5 - 3', [5, 4, 3]), ('Lot 11 thru Lot 13', [11, 12, 13]), ('Lot 2', [2])]
TWO_SEPS = [', NE/4, ', '; SE/4NW/4; ', '\nALL\n', ', N/2 and the ']


def two_lists_case(acc, a, b, sep):
    (ta, na), (tb, nb) = TWO_LISTS[a], TWO_LISTS[b]
    text = ta + sep + tb
    key = f"two|{text}"
    case = {'two': True, 'a': a, 'b': b, 'sep': sep, 'text': text}
    want = [f"L{n}" for n in na + nb]
    try:
        t = _p.Tract(text, trs='154n97w14', parse_qq=True)
        got, il = list(t.lots), list(t.ilots)
        d = _p.PLSSDesc('T154N-R97W Sec 14: ' + text, parse_qq=True)
        got_d = list(d.tracts[0].lots)
    except Exception as ex:  # noqa
        acc.case(key, 'EXC')
        acc.violation('exception', f"C05:exception:{key}", case, got=f"{type(ex).__name__}: {ex}")
        return
    acc.case(key, got)
    acc.states += 1
    acc.transitions += 1
    if got != want or il != na + nb or got_d != want:
        acc.violation('lots', f"C05:lots:two_lists:{text}", case, got=[got, il, got_d], exp=want)
    else:
        acc.guard('two_lists_ok')


def run_unit(unit, tier):
    acc = Acc()
    if unit.get('two'):
        for a in range(len(TWO_LISTS)):
            for b in range(len(TWO_LISTS)):
                for sep in TWO_SEPS:
                    two_lists_case(acc, a, b, sep)
        return acc.result()
    kind, L = unit['kind'], unit['L']
    pool = ITEMS + EXTRA[kind]
    seen = set()
    if L == 1:
        seqs = [(it,) for it in pool]
    elif L == 2:
        seqs = [(pool[unit['first']], b) for b in pool]
    else:
        f, g = unit['first']
        seqs = [(ITEMS[f], ITEMS[g]) + tail for tail in itertools.product(ITEMS, repeat=L - 2)]
    for seq in seqs:
        for r in renderings(kind, max_dev(tier, L)):
            acc.transitions += 1
            judge(acc, kind, seq, r, render(kind, seq, r), seen)
    return acc.result()


def replay(case):
    acc = Acc()
    if case.get('two'):
        two_lists_case(acc, case['a'], case['b'], case['sep'])
        return acc.viol
    seq = tuple(tuple(i) for i in case['seq'])
    judge(acc, case['kind'], seq, case['rendering'], render(case['kind'], seq, case['rendering']), set())
    return acc.viol


def guards(info):
    g = info['guards']
    out = []
    for name in ('descending_seen', 'duplicates_kept', 'two_lists_ok'):
        if not g.get(name):
            out.append(f"never observed: {name}")
    return out
