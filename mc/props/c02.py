"""
C02 - aliquot parsing tiles exactly the described area at the requested depth.

Bounded exhaustive enumeration of every aliquot chain over the 8 components up to a
length bound (plus ALL) x every depth configuration in the stated domain, executed on
the real ``pytrs.Tract(...).qqs`` and judged by an exact geometric reference model
(dyadic rectangles in ``fractions.Fraction`` arithmetic).
"""
import itertools
import re
from fractions import Fraction as F

from ..core import Acc, import_pytrs

ID = 'C02'
LEVEL = 'model_checking'
TECHNIQUE = 'bounded exhaustive enumeration of all aliquot chains x depth configurations on the real parser, exact geometric reference model'
LEVEL_TEXT = ('Every chain of up to 5 (quick) / 6 (thorough) aliquot components x 30 depth configurations is executed on the '
              'real Tract parser and judged by an exact tiling oracle (inside / disjoint / area / min / max / break_halves); '
              'the defects this property guards against (wrong subdivision table entry, single-pass standardisation, '
              'depth arithmetic) all manifest at chain length <= 3, so the bound gives strong assurance.')
LEVEL_NOTE = ('Trusted: the geometric reference model in mc/props/c02.py; nothing is claimed for chains longer than the bound or '
              'qq_depth_min > 3.')
RULE = (
    "generator automaton: a state is (chain prefix over {N,S,E,W,NE,NW,SE,SW}, depth "
    "configuration, channel); transitions append one component or pick one configuration; "
    "every state with a non-empty chain (and 'ALL') is complete and is executed on the real "
    "Tract parser; all chains up to the length bound x 30 depth configurations "
    "(qq_depth_min 1..3 x qq_depth_max in {None,min,min+1,min+2} x break_halves, and qq_depth 1..3 x "
    "break_halves) x channel (config string at init; parse() keywords and '/2 /4' spelling for "
    "chains of length <= 3). Non-trivial = every case (each has a distinct (chain, config, channel) "
    "key and a computed expected region)."
)
ASSUMPTIONS = [
    "chains longer than the bound and qq_depth_min > 3 are not explored (small-scope hypothesis)",
    "the geometric model reads 'X of Y' right-to-left on the unit square and widens the region to "
    "its dyadic ancestor of side 2^-max per axis when qq_depth_max is set",
    "spelling variants other than the canonical one and '/2','/4' are C07's subject",
]
COMPS = ('N', 'S', 'E', 'W', 'NE', 'NW', 'SE', 'SW')
FR = {'N': 'N½', 'S': 'S½', 'E': 'E½', 'W': 'W½',
      'NE': 'NE¼', 'NW': 'NW¼', 'SE': 'SE¼', 'SW': 'SW¼'}
SL = {'N': 'N/2', 'S': 'S/2', 'E': 'E/2', 'W': 'W/2',
      'NE': 'NE/4', 'NW': 'NW/4', 'SE': 'SE/4', 'SW': 'SW/4'}
LMAX = {'quick': 5, 'thorough': 6}

CONFIGS = []
for _mn in (2, 1, 3):
    for _mx in (None, _mn, _mn + 1, _mn + 2):
        for _bh in (False, True):
            CONFIGS.append((_mn, _mx, None, _bh))
for _d in (2, 1, 3):
    for _bh in (False, True):
        CONFIGS.append((None, None, _d, _bh))


# ------------------------------------------------------------------ model
def sub(rect, c):
    x0, y0, w, h = rect
    if c == 'ALL':
        return rect
    if c == 'N':
        return (x0, y0 + h / 2, w, h / 2)
    if c == 'S':
        return (x0, y0, w, h / 2)
    if c == 'E':
        return (x0 + w / 2, y0, w / 2, h)
    if c == 'W':
        return (x0, y0, w / 2, h)
    return sub(sub(rect, c[0]), c[1])


def region(chain):
    r = (F(0), F(0), F(1), F(1))
    for c in reversed(chain):
        r = sub(r, c)
    return r


def widen(rect, m):
    x0, y0, w, h = rect
    minsz = F(1, 2 ** m)
    if w < minsz:
        x0 = (x0 // minsz) * minsz
        w = minsz
    if h < minsz:
        y0 = (y0 // minsz) * minsz
        h = minsz
    return (x0, y0, w, h)


TOK = re.compile(r'NE|NW|SE|SW|N2|S2|E2|W2|ALL')


def inside(a, b):
    return (a[0] >= b[0] and a[1] >= b[1]
            and a[0] + a[2] <= b[0] + b[2] and a[1] + a[3] <= b[1] + b[3])


def overlap(a, b):
    return (a[0] < b[0] + b[2] and b[0] < a[0] + a[2]
            and a[1] < b[1] + b[3] and b[1] < a[1] + a[3])


def judge(chain, cfg, qqs):
    """-> (violation class or None, detail)"""
    mn, mx, d, bh = cfg
    if d is not None:
        mn = mx = d
    reg = region(chain)
    if mx is not None:
        reg = widen(reg, mx)
    rects = []
    if not isinstance(qqs, list) or not qqs:
        return 'no_pieces', repr(qqs)
    for p in qqs:
        if not isinstance(p, str):
            return 'piece_not_str', repr(p)
        toks = TOK.findall(p)
        if ''.join(toks) != p or not toks:
            return 'untokenisable_piece', p
        comps = [t[0] if t.endswith('2') else t for t in toks]
        r = region(comps)
        rects.append(r)
        if not inside(r, reg):
            return 'piece_outside_region', p
        if mx is not None and len(toks) > mx:
            return 'deeper_than_max', p
        big = toks[::-1][:mn]
        if 'ALL' in toks:
            return 'all_in_piece', p
        if len(toks) < mn or any(x.endswith('2') for x in big):
            return 'min_depth', p
        if bh and any(x.endswith('2') for x in toks):
            return 'half_with_break_halves', p
    if sum(r[2] * r[3] for r in rects) != reg[2] * reg[3]:
        return 'area_mismatch', f"{sum(r[2] * r[3] for r in rects)} != {reg[2] * reg[3]}"
    for a, b in itertools.combinations(rects, 2):
        if overlap(a, b):
            return 'overlap', ''
    return None, ''


def cfg_text(cfg):
    mn, mx, d, bh = cfg
    parts = []
    if mn is not None:
        parts.append(f"qq_depth_min.{mn}")
    if mx is not None:
        parts.append(f"qq_depth_max.{mx}")
    if d is not None:
        parts.append(f"qq_depth.{d}")
    if bh:
        parts.append('break_halves')
    return ','.join(parts)


def cfg_kwargs(cfg):
    mn, mx, d, bh = cfg
    kw = {}
    if mn is not None:
        kw['qq_depth_min'] = mn
    if mx is not None:
        kw['qq_depth_max'] = mx
    if d is not None:
        kw['qq_depth'] = d
    if bh:
        kw['break_halves'] = True
    return kw


# ------------------------------------------------------------------ space
def units(tier):
    lmax = LMAX[tier]
    us = [{'prefix': ['ALL'], 'L': 1}]
    for c in COMPS:
        us.append({'prefix': [c], 'L': 1})
    for L in range(2, lmax + 1):
        for a in COMPS:
            for b in COMPS:
                us.append({'prefix': [a, b], 'L': L})
    return us


def space(tier):
    lmax = LMAX[tier]
    chains = sum(8 ** k for k in range(1, lmax + 1)) + 1
    return {
        'bound': f"chain length <= {lmax} (+ALL); qq_depth_min<=3; qq_depth_max<=min+2; "
                 f"kwargs channel, slash spelling and 'object configured with other depth settings + keywords' for length<=3",
        'states': 0, 'transitions': chains,   # prefix-tree edges; config edges are counted per case
        'caps_hit': [],
    }


_pytrs = None


def worker_init(tier):
    global _pytrs
    _pytrs = import_pytrs()
    import warnings
    warnings.simplefilter('ignore')


def run_case(chain, cfg, channel):
    """-> qqs (or raises)"""
    if channel == 'cfg':
        txt = ''.join(FR.get(c, c) for c in chain)
        return _pytrs.Tract(txt, parse_qq=True, config=cfg_text(cfg)).qqs
    if channel == 'kw':
        txt = ''.join(FR.get(c, c) for c in chain)
        t = _pytrs.Tract(txt)
        t.parse(**cfg_kwargs(cfg))
        return t.qqs
    if channel in ('all_title', 'all_lower', 'all_title_plss', 'all_lower_after_lots'):
        # the word ALL in the cases in which descriptions usually write it
        assert chain == ('ALL',)
        if channel == 'all_title_plss':
            d = _pytrs.PLSSDesc('T154N-R97W Sec 14: All', config=cfg_text(cfg), parse_qq=True)
            assert len(d.tracts) == 1
            return d.tracts[0].qqs
        txt = {'all_title': 'All', 'all_lower': 'all', 'all_lower_after_lots': 'Lots 1 - 4, all'}[channel]
        return _pytrs.Tract(txt, parse_qq=True, config=cfg_text(cfg)).qqs
    if channel == 'slash':
        txt = ''.join(SL.get(c, c) for c in chain)
        return _pytrs.Tract(txt, parse_qq=True, config=cfg_text(cfg)).qqs
    if channel in ('plss_cfg', 'plss_kw', 'plss_parse_tracts'):
        txt = 'T154N-R97W Sec 14: ' + ''.join(FR.get(c, c) for c in chain)
        if channel == 'plss_cfg':
            d = _pytrs.PLSSDesc(txt, config=cfg_text(cfg), parse_qq=True)
        elif channel == 'plss_kw':
            d = _pytrs.PLSSDesc(txt, wait_to_parse=True)
            d.parse(parse_qq=True, **cfg_kwargs(cfg))
        else:
            d = _pytrs.PLSSDesc(txt, config='qq_depth.1' if cfg[2] != 1 else 'qq_depth.3')
            d.parse_tracts(**cfg_kwargs(cfg))
        assert len(d.tracts) == 1
        return d.tracts[0].qqs
    if channel in ('stored_kw', 'stored_maxonly', 'stored_kw_list'):
        # the object carries *other* depth settings from its config; the keywords of this parse() call are what was requested
        mn, mx, d, bh = cfg
        txt = ''.join(FR.get(c, c) for c in chain)
        if d is not None:
            stored = 'qq_depth_min.3,qq_depth_max.3' if d != 3 else 'qq_depth_min.1,qq_depth_max.1'
        else:
            stored = 'qq_depth.1' if mn != 1 else 'qq_depth.3'
        kw = cfg_kwargs(cfg)
        if channel == 'stored_maxonly':
            kw.pop('qq_depth_min')
        t = _pytrs.Tract(txt, trs='154n97w14', config=stored)
        if channel == 'stored_kw_list':
            _pytrs.TractList([t]).parse_tracts(**kw)
        else:
            t.parse(**kw)
        return t.qqs
    raise ValueError(channel)


def check_case(acc, chain, cfg, channel):
    case = {'chain': list(chain), 'cfg': list(cfg), 'channel': channel}
    key = f"{'.'.join(chain)}|{cfg_text(cfg)}|{channel}"
    try:
        qqs = run_case(chain, cfg, channel)
    except Exception as e:  # noqa
        acc.case(key, 'EXC ' + type(e).__name__)
        acc.violation('exception', f"C02:exception:{key}", case,
                      got=f"{type(e).__name__}: {e}")
        return
    acc.case(key, qqs)
    acc.states += 1
    acc.transitions += 1
    cls, detail = judge(chain, cfg, qqs)
    if cls:
        acc.violation(cls, f"C02:{cls}:{key}", case, got=qqs, note=detail)
    else:
        if any('2' in p for p in qqs):
            acc.guard('saw_half_piece')
        mn, mx, d, bh = cfg
        if mx is not None and widen(region(chain), mx) != region(chain):
            acc.guard('max_depth_truncated')
        if len(qqs) >= 16:
            acc.guard('sixteen_or_more_pieces')


def run_unit(unit, tier):
    acc = Acc()
    pre = tuple(unit['prefix'])
    L = unit['L']
    rest = L - len(pre)
    for tail in itertools.product(COMPS, repeat=rest):
        chain = pre + tail
        for cfg in CONFIGS:
            check_case(acc, chain, cfg, 'cfg')
            if L <= 3:
                check_case(acc, chain, cfg, 'kw')
                check_case(acc, chain, cfg, 'stored_kw')
                if L <= 2:
                    check_case(acc, chain, cfg, 'stored_kw_list')
                    check_case(acc, chain, cfg, 'plss_cfg')
                    check_case(acc, chain, cfg, 'plss_kw')
                    check_case(acc, chain, cfg, 'plss_parse_tracts')
                if cfg[0] == 2 and cfg[1] is not None:     # 2 is the default minimum: giving only the maximum requests the same
                    check_case(acc, chain, cfg, 'stored_maxonly')
                if chain != ('ALL',):
                    check_case(acc, chain, cfg, 'slash')
                else:
                    for ch in ('all_title', 'all_lower', 'all_title_plss', 'all_lower_after_lots'):
                        check_case(acc, chain, cfg, ch)
    return acc.result()


def replay(case):
    acc = Acc()
    check_case(acc, tuple(case['chain']), tuple(case['cfg']), case['channel'])
    return acc.viol


def guards(info):
    g = info['guards']
    out = []
    for name in ('saw_half_piece', 'max_depth_truncated', 'sixteen_or_more_pieces'):
        if not g.get(name):
            out.append(f"never observed: {name}")
    if info['outcomes'] < 1000:
        out.append(f"only {info['outcomes']} distinct outcomes")
    return out
