"""
C17 - custom_sort / sort_tracts is a stable multi-key permutation with errors last.

All lists up to a length bound over a pool of 11 TRS values (ties, N/S and E/W mixes,
error / undefined / partially undefined) as TRSList and as TractList (creation order =
reverse of list order) x all key strings up to a key-count bound, compared *by object
identity* with a reference model made of successive Python stable sorts.
"""
import itertools
import warnings

from ..core import Acc, import_pytrs

ID = 'C17'
LEVEL = 'model_checking'
TECHNIQUE = ('bounded exhaustive enumeration of all lists (length <= 4/5 over an 11-value pool) x all sort-key strings '
             '(<= 2/3 sub-keys) on the real containers, identity comparison with a stable multi-key reference sort')
LEVEL_TEXT = ('Every list up to length 4 (quick) / 5 (thorough) over a pool that contains ties, north/south and east/west mixes, '
              'zero, error, undefined and partially undefined components, as TRSList and TractList, is sorted with every key '
              'string of up to 2 (3) sub-keys incl. .rev/.reverse, case and spacing variants; the result must be the identical '
              'object sequence produced by an independently written stable multi-key reference sort. Sorting bugs (sign, '
              'stability, placement of errors) need at most 3 elements and 2 keys to manifest.')
LEVEL_NOTE = ('Trusted: the reference rank in mc/props/c17.py (north-to-south = -n for north, +n for south; errors after all valid, '
              'before them when reversed). Keys such as "sec" that are accepted with a SyntaxWarning are outside the statement.')
RULE = (
    "state = (list of pool indexes, container kind, key string); transitions = append one element / append one sub-key; "
    "each complete state is executed: the real custom_sort is run on fresh objects and compared by id() with the "
    "reference. Invalid keys (every unknown single letter/digit alone and next to a valid key, every direction on the wrong "
    "variable, empty sub-keys) must raise ValueError. Non-trivial = every (list, kind, key) triple; trivial ones "
    "(single-element lists) are counted separately."
)
ASSUMPTIONS = [
    "lists longer than the bound / more than 3 sub-keys are not explored",
    "for TRSList the 'i' key is a stable no-op (TRS objects carry no creation counter)",
]

# numbers of different digit counts (2 / 10 / 100, 3 / 11) so that a string comparison sorts differently from a numeric one
POOL = ['2n3w05', '2s3w05', '10n1e01', '10s11e36', '2n3w36', 'XXXzXXXzXX', '___z___z__',
        '2nXXXz05', '___z3w05', '100n11eXX', '0n0w00']
SUB = ['i', 't', 't.num', 't.ns', 't.sn', 'r', 'r.num', 'r.ew', 'r.we', 's', 's.num']
KEYS1 = [s + r for s in SUB for r in ('', '.rev', '.reverse')]
KEYS_SHORT = [s + r for s in SUB for r in ('', '.rev')]

PLSS_TEXTS = [
    "T154N-R97W Sec 14: NE/4, Sec 3: ALL, T2S-R97W Sec 3: N/2, Sec 1: Lot 1, T154N-R2E Sec 36: SW/4",
    "T5N-R1E Sec 36: NE/4, Sec 1: ALL, T5S-R1E Sec 36: N/2, T5N-R1W Sec 1 - 3: Lot 1, Sec 2: S/2",
    "Sec 14: NE/4, T2N-R3W Sec 5: NE/4, Sec 36: ALL, T2S-R3W Sec 5: N/2",
]

INVALID = []
for _c in 'abcdefghjklmnopquvwxyz0123456789_':
    INVALID += [_c, f"t,{_c}", f"{_c},s", f"{_c}.num", f"{_c}.rev"]
for _k in ('t.ew', 't.we', 'r.ns', 'r.sn', 's.ns', 's.sn', 's.ew', 's.we', 'i.ns', 'i.sn', 'i.ew', 'i.we'):
    INVALID += [_k, _k + '.rev', 's,' + _k, _k + ',t']
INVALID += ['t,,s', ',t', 't,', 's, ,r', '.', '.num', '.rev']


# ------------------------------------------------------------ reference model
def rank(el, var, method):
    if var == 't':
        num, d = el.twp_num, el.twp_ns
        if num is None:
            return None
        if method in (None, 'num'):
            return num
        v = -num if d == 'n' else num       # north-to-south ascending
        return v if method == 'ns' else -v
    if var == 'r':
        num, d = el.rge_num, el.rge_ew
        if num is None:
            return None
        if method in (None, 'num'):
            return num
        v = -num if d == 'w' else num       # west-to-east ascending
        return v if method == 'we' else -v
    if var == 's':
        return el.sec_num
    raise ValueError(var)


def ref_sort(lst, key, uid=None):
    lst = list(lst)
    key = key.lower().replace(' ', '').replace('\t', '')
    for k in key.split(','):
        parts = k.split('.')
        var = parts[0]
        rev = parts[-1] in ('rev', 'reverse')
        method = parts[1] if len(parts) > 1 and parts[1] not in ('rev', 'reverse') else None
        if var == 'i':
            kf = (lambda e: uid(e)) if uid else (lambda e: 0)
        else:
            def kf(e, var=var, method=method):
                r = rank(e, var, method)
                return (1, 0) if r is None else (0, r)
        lst.sort(key=kf, reverse=rev)
    return lst


# ------------------------------------------------------------ space
LB = {'quick': (3, 4), 'thorough': (4, 5)}   # (max length for multi-key, max length for single key)


def units(tier):
    us = []
    lmulti, lsingle = LB[tier]
    for L in range(1, lsingle + 1):
        if L == 1:
            us.append({'kind': 'lists', 'L': 1, 'first': None})
        else:
            for f in range(len(POOL)):
                if L >= 4:
                    for g in range(len(POOL)):
                        us.append({'kind': 'lists', 'L': L, 'first': [f, g]})
                else:
                    us.append({'kind': 'lists', 'L': L, 'first': [f]})
    us.append({'kind': 'invalid'})
    us.append({'kind': 'plss'})
    return us


def keys_for(L, tier):
    lmulti, lsingle = LB[tier]
    ks = list(KEYS1)
    if L <= lmulti:
        ks += [a + ',' + b for a in KEYS_SHORT for b in KEYS_SHORT]
    if tier == 'thorough' and L <= 3:
        ks += [a + ',' + b + ',' + c for a in KEYS_SHORT for b in KEYS_SHORT for c in KEYS_SHORT]
    if L <= 2:
        # case / spacing variants
        ks += [k.upper() for k in KEYS1]
        ks += [' ' + a.upper() + ' , ' + b + ' ' for a in KEYS_SHORT for b in KEYS_SHORT[:6]]
        ks += [a.replace('.', ' . ') for a in KEYS1 if '.' in a]
    return ks


def space(tier):
    lmulti, lsingle = LB[tier]
    return {'bound': f"lists of length <= {lsingle} over {len(POOL)} TRS values; 1 sub-key for every list, 2 sub-keys for "
                     f"length <= {lmulti}" + (", 3 sub-keys for length <= 3" if tier == 'thorough' else '')
                     + f"; {len(INVALID)} invalid keys; {len(PLSS_TEXTS)} parsed descriptions through sort_tracts",
            'caps_hit': []}


_p = None


def worker_init(tier):
    global _p
    _p = import_pytrs()
    warnings.simplefilter('ignore')


def sort_case(acc, idx, kind, key):
    """idx: tuple of pool indexes."""
    case = {'kind': kind, 'list': [POOL[i] for i in idx], 'key': key}
    ckey = f"{kind}|{','.join(map(str, idx))}|{key}"
    try:
        if kind == 'trs':
            tl = _p.TRSList([POOL[i] for i in idx])
            orig = list(tl)
            tl.custom_sort(key)
            want = ref_sort(orig, key)
            got = list(tl)
        else:
            tr = [_p.Tract('x', trs=POOL[i]) for i in idx]
            order = list(reversed(tr))
            pos = {id(t): n for n, t in enumerate(tr)}
            tl = _p.TractList(order)
            tl.custom_sort(key)
            want = ref_sort(order, key, uid=lambda e: pos[id(e)])
            got = list(tl)
    except Exception as e:  # noqa
        acc.case(ckey, 'EXC', nontrivial=len(idx) > 1)
        acc.violation('exception', f"C17:exception:{ckey}", case, got=f"{type(e).__name__}: {e}")
        return
    g = [x.trs for x in got]
    acc.case(ckey, ','.join(g), nontrivial=len(idx) > 1)
    acc.states += 1
    acc.transitions += 1
    if [id(x) for x in got] != [id(x) for x in want]:
        if sorted(id(x) for x in got) != sorted(id(x) for x in want):
            cls = 'not_a_permutation'
        else:
            cls = 'wrong_order'
        base = kind == 'trs' and 'trs' or 'tract'
        acc.violation(cls, f"C17:{cls}:{ckey}", case, got=g, exp=[x.trs for x in want],
                      note=f"{base} list; identity order differs from the stable reference sort")
    else:
        if [id(x) for x in got] != [id(x) for x in (orig if kind == 'trs' else order)]:
            acc.guard('order_changed')


def run_lists(acc, L, first, tier):
    first = tuple(first or ())
    ks = keys_for(L, tier)
    for tail in itertools.product(range(len(POOL)), repeat=L - len(first)):
        idx = first + tail
        for key in ks:
            sort_case(acc, idx, 'trs', key)
            sort_case(acc, idx, 'tract', key)


def invalid_case(acc, key, kind, n=None):
    case = {'kind': 'invalid_' + kind, 'key': key, 'n': n}
    ckey = f"invalid|{kind}|{key}|{n}"
    pool = POOL if n is None else POOL[:n]
    try:
        if kind == 'trs':
            tl = _p.TRSList(pool)
        elif kind == 'plss':
            tl = _p.PLSSDesc('T154N-R97W Sec 14: NE/4')
        else:
            tl = _p.TractList([_p.Tract('x', trs=s) for s in pool])
        if kind == 'plss':
            tl.sort_tracts(key)
        else:
            tl.custom_sort(key)
        res = 'accepted'
    except ValueError:
        res = 'ValueError'
    except Exception as e:  # noqa
        res = type(e).__name__
    acc.case(ckey, res)
    acc.states += 1
    acc.transitions += 1
    if res != 'ValueError':
        acc.violation('invalid_key_not_rejected', f"C17:invalid_key_not_rejected:{kind}:{key}", case,
                      got=res, exp='ValueError')
    else:
        acc.guard('invalid_rejected')


def plss_case(acc, ti, key):
    text = PLSS_TEXTS[ti]
    case = {'kind': 'plss', 'text': ti, 'key': key}
    ckey = f"plss|{ti}|{key}"
    try:
        d = _p.PLSSDesc(text)
        order = list(d.tracts)
        order.reverse()
        d.tracts = _p.TractList(order)
        pos = {id(t): t.orig_index for t in order}
        d.sort_tracts(key)
        got = list(d.tracts)
        want = ref_sort(order, key, uid=lambda e: pos[id(e)])
    except Exception as e:  # noqa
        acc.case(ckey, 'EXC')
        acc.violation('exception', f"C17:exception:{ckey}", case, got=f"{type(e).__name__}: {e}")
        return
    acc.case(ckey, ','.join(x.trs for x in got))
    acc.states += 1
    acc.transitions += 1
    if [id(x) for x in got] != [id(x) for x in want]:
        acc.violation('sort_tracts_wrong_order', f"C17:sort_tracts_wrong_order:{ckey}", case,
                      got=[x.trs for x in got], exp=[x.trs for x in want])
    else:
        acc.guard('plss_sorted')


def run_unit(unit, tier):
    acc = Acc()
    if unit['kind'] == 'lists':
        run_lists(acc, unit['L'], unit['first'], tier)
    elif unit['kind'] == 'invalid':
        for key in INVALID:
            invalid_case(acc, key, 'trs')
            invalid_case(acc, key, 'tract')
            for n in (0, 1, 2):        # also on an empty, a one-element and a two-element list
                invalid_case(acc, key, 'trs', n)
                invalid_case(acc, key, 'tract', n)
            invalid_case(acc, key, 'plss')      # a description with a single tract, through sort_tracts
    else:
        ks = list(KEYS1) + [a + ',' + b for a in KEYS_SHORT for b in KEYS_SHORT]
        for ti in range(len(PLSS_TEXTS)):
            for key in ks:
                plss_case(acc, ti, key)
    return acc.result()


def replay(case):
    acc = Acc()
    if case['kind'] in ('trs', 'tract'):
        idx = tuple(POOL.index(s) for s in case['list'])
        sort_case(acc, idx, case['kind'], case['key'])
    elif case['kind'].startswith('invalid_'):
        invalid_case(acc, case['key'], case['kind'][len('invalid_'):], case.get('n'))
    else:
        plss_case(acc, case['text'], case['key'])
    return acc.viol


def guards(info):
    g = info['guards']
    out = []
    for name in ('order_changed', 'invalid_rejected', 'plss_sorted'):
        if not g.get(name):
            out.append(f"never observed: {name}")
    if info['outcomes'] < 500:
        out.append(f"only {info['outcomes']} distinct output orders")
    return out
