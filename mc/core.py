"""
Core of the bounded exhaustive explorer used by every check.

A check is a module ``mc.props.cNN`` exposing

    ID, LEVEL, RULE, ASSUMPTIONS                      (metadata)
    units(tier)            -> list of JSON-able work units (the whole bounded
                              space, partitioned; generated in the parent)
    run_unit(unit, tier)   -> dict produced by ``Acc.result()`` (runs in a worker,
                              against the real pytrs imported from $PYTRS_VERIF_REPO)
    replay(case)           -> list of violations for exactly one recorded case
    guards(total)          -> list of strings (vacuity problems), may be empty
    space(tier)            -> dict describing bound / states / transitions counted
                              by the generator (optional)

The parent never imports pytrs itself before the pool is forked, so every worker
imports the working tree freshly; there are no threads anywhere in the parent
(see DESIGN.md 'worker pool discipline').
"""
import hashlib
import json
import os
import signal
import sys
import time
import traceback
import multiprocessing as mp
from collections import Counter
from multiprocessing.connection import wait as mp_wait

VERIF = os.path.dirname(os.path.dirname(os.path.abspath(__file__)))
REPO = os.environ.get('PYTRS_VERIF_REPO', '/repo')
NPROC = int(os.environ.get('VERIF_NPROC', '16'))


def import_pytrs():
    """Import pytrs from the tree under test (and prove it is that tree)."""
    if not sys.path or sys.path[0] != REPO:
        sys.path.insert(0, REPO)
    import pytrs
    real = os.path.realpath(pytrs.__file__)
    if not real.startswith(os.path.realpath(REPO) + os.sep):
        raise RuntimeError(f"pytrs imported from {real}, expected under {REPO}")
    return pytrs


def h64(s) -> int:
    if not isinstance(s, bytes):
        s = s.encode('utf-8', 'surrogatepass')
    return int.from_bytes(hashlib.blake2b(s, digest_size=8).digest(), 'big')


def jdump(o) -> str:
    return json.dumps(o, sort_keys=True, ensure_ascii=False, default=repr)


OUTCOME_CAP = 200_000
VIOL_PER_CLASS_PER_UNIT = 3


class Acc:
    """Per-unit accumulator (lives in the worker)."""

    def __init__(self):
        self.n = 0                  # executions of the implementation (cases judged)
        self.nontrivial = 0
        self.keysum = 0             # order-independent digest of the case keys
        self.obs = hashlib.blake2b(digest_size=16)   # sequential digest of observations
        self.outcomes = set()
        self.viol = []
        self.vclasses = Counter()
        self.guards = Counter()
        self.samples = []
        self.states = 0
        self.transitions = 0
        self.extra = Counter()

    def case(self, key: str, obs, nontrivial=True):
        """Record one judged execution: its canonical key and what was observed."""
        self.n += 1
        if nontrivial:
            self.nontrivial += 1
        self.keysum = (self.keysum + h64(key)) & 0xFFFFFFFFFFFFFFFF
        o = obs if isinstance(obs, str) else jdump(obs)
        self.obs.update(o.encode('utf-8', 'surrogatepass'))
        self.obs.update(b'\0')
        if len(self.outcomes) < OUTCOME_CAP:
            self.outcomes.add(h64(o))
        if len(self.samples) < 2:
            self.samples.append(key)

    def violation(self, cls: str, sig: str, case, got=None, exp=None, note=''):
        """cls: violation class; sig: the narrow signature used for known-finding
        matching; case: JSON-able replayable case."""
        self.vclasses[cls] += 1
        if sum(1 for v in self.viol if v['cls'] == cls) < VIOL_PER_CLASS_PER_UNIT \
                or not any(v['sig'] == sig for v in self.viol):
            self.viol.append({
                'cls': cls, 'sig': sig, 'case': case,
                'got': got, 'exp': exp, 'note': note})

    def guard(self, name, k=1):
        self.guards[name] += k

    def result(self):
        return {
            'n': self.n, 'nontrivial': self.nontrivial, 'keysum': self.keysum,
            'obs': self.obs.hexdigest(), 'outcomes': list(self.outcomes),
            'viol': self.viol, 'vclasses': dict(self.vclasses),
            'guards': dict(self.guards), 'samples': self.samples,
            'states': self.states, 'transitions': self.transitions,
            'extra': dict(self.extra),
        }


# ---------------------------------------------------------------------------
# Worker pool: long-lived single-threaded processes, parent-enforced deadlines.
# ---------------------------------------------------------------------------

def _worker_main(conn, modname, tier, hashseed_note):
    signal.signal(signal.SIGINT, signal.SIG_IGN)
    try:
        import importlib
        mod = importlib.import_module(modname)
        if hasattr(mod, 'worker_init'):
            mod.worker_init(tier)
    except BaseException:
        conn.send(('fatal', traceback.format_exc()))
        return
    conn.send(('ready', None))
    while True:
        try:
            msg = conn.recv()
        except EOFError:
            return
        if msg is None:
            return
        idx, unit = msg
        try:
            res = mod.run_unit(unit, tier)
            conn.send(('ok', idx, res))
        except BaseException as ex:
            tb = traceback.format_exc()
            site = library_site(ex)
            if site is None:
                conn.send(('err', idx, tb))
            else:
                # the exception was raised *inside the library under test* at a point where the harness had no reason to expect
                # one (e.g. while warming a cache or computing a reference): on the unchanged tree this does not happen, so it
                # is a property-relevant failure of the tree, reported as a violation rather than as a harness error
                acc = Acc()
                acc.violation('library_exception_outside_oracle', f"{getattr(mod, 'ID', '?')}:library_exception:{type(ex).__name__}@{site}",
                              {'harness_unit': unit}, got=f"{type(ex).__name__}: {ex}", note=tb[-1500:])
                conn.send(('ok', idx, acc.result()))


def library_site(ex):
    """file:function of the innermost traceback frame that lies in the library under test, or None"""
    root = os.path.realpath(REPO) + os.sep
    site = None
    tb = ex.__traceback__
    while tb is not None:
        fn = os.path.realpath(tb.tb_frame.f_code.co_filename)
        if fn.startswith(root):
            site = f"{os.path.relpath(fn, root)}:{tb.tb_frame.f_code.co_name}"
        tb = tb.tb_next
    return site


class Pool:
    def __init__(self, modname, tier, nproc=NPROC, unit_deadline=600.0):
        self.modname = modname
        self.tier = tier
        self.nproc = nproc
        self.deadline = unit_deadline
        self.ctx = mp.get_context('fork')
        self.workers = []   # list of dict(proc, conn, busy(idx or None), t0)

    def _spawn(self):
        parent, child = self.ctx.Pipe()
        p = self.ctx.Process(target=_worker_main,
                             args=(child, self.modname, self.tier, ''), daemon=True)
        p.start()
        child.close()
        w = {'proc': p, 'conn': parent, 'busy': None, 't0': 0.0, 'ready': False}
        return w

    def run(self, units, on_result, on_timeout=None, max_timeouts=None):
        """Run all units; on_result(idx, res). Returns list of harness errors.
        max_timeouts: after that many units had to be killed twice the exploration is cut short (self.aborted is set; the
        caller reports the cap) - a tree that hangs on many inputs would otherwise cost deadline x 2 per unit."""
        errors = []
        self.aborted = False
        n_timeouts = 0
        pending = list(range(len(units)))
        pending.reverse()
        n = min(self.nproc, max(1, len(units)))
        self.workers = [self._spawn() for _ in range(n)]
        done = 0
        total = len(units)
        retried = set()
        while done < total:
            # dispatch
            for w in self.workers:
                if w['ready'] and w['busy'] is None and pending:
                    idx = pending.pop()
                    w['conn'].send((idx, units[idx]))
                    w['busy'] = idx
                    w['t0'] = time.time()
            conns = [w['conn'] for w in self.workers]
            ready = mp_wait(conns, timeout=1.0)
            now = time.time()
            for c in ready:
                w = next(x for x in self.workers if x['conn'] is c)
                try:
                    msg = c.recv()
                except (EOFError, ConnectionResetError):
                    # worker died
                    idx = w['busy']
                    self._replace(w)
                    if idx is not None:
                        if idx in retried:
                            errors.append(f"worker died twice on unit {idx}")
                            done += 1
                        else:
                            retried.add(idx)
                            pending.append(idx)
                    continue
                if msg[0] == 'ready':
                    w['ready'] = True
                elif msg[0] == 'fatal':
                    errors.append('worker init failed:\n' + msg[1])
                    self.close()
                    return errors
                elif msg[0] == 'ok':
                    w['busy'] = None
                    done += 1
                    on_result(msg[1], msg[2])
                elif msg[0] == 'err':
                    w['busy'] = None
                    done += 1
                    errors.append(f"unit {msg[1]} raised in harness:\n{msg[2]}")
            for w in list(self.workers):
                if w['busy'] is not None and now - w['t0'] > self.deadline:
                    idx = w['busy']
                    self._replace(w)
                    if idx in retried:
                        done += 1
                        n_timeouts += 1
                        if on_timeout:
                            on_timeout(idx)
                        else:
                            errors.append(
                                f"unit {idx} exceeded {self.deadline}s twice")
                        if max_timeouts is not None and n_timeouts >= max_timeouts:
                            self.aborted = True
                            self.close(kill=True)
                            return errors
                    else:
                        retried.add(idx)
                        pending.append(idx)
        self.close()
        return errors

    def _replace(self, w):
        try:
            w['proc'].kill()
            w['proc'].join(5)
        except Exception:
            pass
        try:
            w['conn'].close()
        except Exception:
            pass
        i = self.workers.index(w)
        self.workers[i] = self._spawn()

    def close(self, kill=False):
        for w in self.workers:
            if kill:
                try:
                    w['proc'].kill()
                except Exception:
                    pass
                continue
            try:
                w['conn'].send(None)
            except Exception:
                pass
        for w in self.workers:
            w['proc'].join(2)
            if w['proc'].is_alive():
                w['proc'].kill()
        self.workers = []


def chunked(seq, size):
    seq = list(seq)
    return [seq[i:i + size] for i in range(0, len(seq), size)]
