"""
The shared input space of C03 / C09 / C10 / C11 (DESIGN.md section 2): token soup,
damaged descriptions, special strings, and the parse-mode menu.
"""
import itertools

from . import gen

V = ['T154N-R97W', 'T1S-R2E', 'Sec', 'Section', '14', '15', ':', ',', '-', 'and', 'of', 'NE/4',
     'Lots 1 - 3', 'ALL', '\n', 'Township 7 North', 'Range 9 West', 'less and except', '§', 'xyz',
     'in', '.', '&', 'through', '154N', '97W', 'N/2', 'T155N', 'R98W']

SPECIALS = [
    '', ' ', '\n', '\n\n\n', '\t', ' \t \n ', '½¼', 'N½NE¼', '§', '§§ 14', 'Sec', 'Sec:', ':', ';;', '()', '[]',
    'T', 'R', 'T-R', 'TN-RW', 'T154N', 'R97W', '154', 'N', '0', '000', 'T0N-R0W Sec 0: x', 'T999N-R999W Sec 99: ALL',
    'T1000N-R1000W Sec 100: ALL', 'Sec 999', 'Lot', 'Lots', 'Lot 0', 'Lot 999 (999.999999)', 'Lot 1(', 'Lot 1 (.)',
    'Lot 1 [', 'L1', 'ALL ALL', 'ALL of', 'N/2N/2N/2N/2N/2N/2N/2N/2', 'NENENENENENE', 'NE/4' * 30,
    'x' * 300, ('Beginning at a point 100 feet north of the SE corner; thence N 2° 37\' W 660 feet; ' * 3)[:300],
    'T154N-R97W\x00Sec 14: NE/4', 'T154N-R97W\rSec 14: NE/4', 'T154N-R97W\r\nSec 14: NE/4\r\n', '﻿T154N-R97W Sec 14: NE/4',
    'Ｔ１５４Ｎ-Ｒ９７Ｗ Sec １４: ＮＥ/４', 'T١٥٤N-R٩٧W Sec ١٤: NE/4', 'T154N‑R97W Sec 14：NE/4', 'Sec ١٤', 'Lot ٣',
    'T154N-R97W Sec 14: NE/4 \U0001F600', 'İstanbul ß ǅ', 'T154N-R97W Sec 14: less and except', 'less', 'except',
    'Sec 14 of', 'of Sec 14', 'of', 'in', 'the', 'and', ', ; : - – —', '.....', 'T154N-R97W T154N-R97W T154N-R97W',
    'Sec 1 - 2 - 3 - 4', 'Sec 3 - 1 - 3', 'Sec 1 through', 'through 3', 'Secs', 'Section Section 14',
    'T154N-R97W Sec 14: Sec 15: Sec 16:', 'Sec 14: T154N-R97W Sec 15: T155N-R97W', 'T154N-R97W, of the 5th P.M.',
    'P.M.', 'Principal Meridian', 'T154N-R97W of the Principal Meridian Sec 14: NE/4',
    'TIS4N-R97W Sec 14: NE/4', 'T1S4N-R9TW', 'Tl54N-RO7W Sec I4',
    'T154N-R97W Sec 14:\xa0NE/4,\xa0Sec 15: W/2', 'T154N-R97W\u2003Sec 14: NE/4\x0cSec 15: W/2', 'T154N-R97W Sec 14: NE/4\rSec 15: W/2',
    'NE/4 of\xa0Section 14,\xa0T154N-R97W', 'T154N-R97W\x0bSec 14:\u2009NE/4',
]

# ---------------------------------------------------------------- parse modes
# Each mode: (name, init-kwargs dict, post) where post is None or ('parse', kwargs) meaning the object is created with
# wait_to_parse=True and then .parse(**kwargs) is called.
BASE_CFGS = ['segment', 'sec_within', 'sec_colon_required', 'sec_colon_cautious', 'ocr_scrub', 'clean_qq',
             'qq_depth.1', 'qq_depth_min.3,qq_depth_max.3,break_halves', 's,e', 'suppress_lot_divs']
LAYOUTS5 = list(gen.LAYOUTS) + ['copy_all']


def modes(level):
    """level 0: default only; 1: every single deviation; 2: all pairs of base configs and layout x base config."""
    ms = [('default', {}, None)]
    if level >= 1:
        for c in BASE_CFGS:
            ms.append((c, {'config': c}, None))
        for lay in LAYOUTS5:
            ms.append(('cfg:' + lay, {'config': lay}, None))
    if level >= 2:
        for lay in LAYOUTS5:
            ms.append(('kw:' + lay, {'layout': lay}, None))
            ms.append(('parse:' + lay, {}, ('parse', {'layout': lay})))
        for a, b in itertools.combinations(BASE_CFGS, 2):
            ms.append((a + ',' + b, {'config': a + ',' + b}, None))
        for lay in LAYOUTS5:
            for c in BASE_CFGS[:5]:
                ms.append((lay + ',' + c, {'config': lay + ',' + c}, None))
        ms.append(('parse_kw', {}, ('parse', {'segment': True, 'sec_within': True, 'ocr_scrub': True,
                                              'clean_qq': True, 'qq_depth': 1})))
        ms.append(('Config_obj', {'config_obj': 'segment,sec_colon_cautious,clean_qq'}, None))
    return ms


def parse(pytrs, text, mode, parse_qq=True, source=None):
    """Create the PLSSDesc for (text, mode) on the real implementation."""
    name, kw, post = mode
    kw = dict(kw)
    if 'config_obj' in kw:
        kw['config'] = pytrs.Config(kw.pop('config_obj'))
    if post is None:
        return pytrs.PLSSDesc(text, parse_qq=parse_qq, source=source, **kw)
    d = pytrs.PLSSDesc(text, parse_qq=parse_qq, source=source, wait_to_parse=True, **kw)
    d.parse(**post[1])
    return d


# ---------------------------------------------------------------- texts
def soup_texts(first, depth):
    """All token strings starting with V[first] of length 1..depth (joined by a blank)."""
    out = []
    for L in range(1, depth + 1):
        for seq in itertools.product(range(len(V)), repeat=L - 1):
            out.append(' '.join([V[first]] + [V[i] for i in seq]))
    return out


def tokenize(text):
    """Split a rendered description into tokens such that ''.join(tokens) == text."""
    import re
    return re.findall(r'\s+|[A-Za-z0-9/½¼§().]+|[^\sA-Za-z0-9/½¼§().]', text)


def seeds():
    out = []
    for layout in gen.LAYOUTS:
        for si in range(4):
            text, exp = gen.render(layout, gen.STRUCTS[si], {})
            out.append((layout, si, text))
    return out


INSERT_TOKENS = [' ' + t + ' ' for t in V if t != '\n'] + ['\n']


def damage1(text):
    """All texts at one damage edit from `text` (delete / insert / swap / duplicate a token, drop a colon)."""
    toks = tokenize(text)
    out = []
    words = [i for i, t in enumerate(toks) if not t.isspace()]
    for i in words:
        out.append(''.join(toks[:i] + toks[i + 1:]))                      # delete
        out.append(''.join(toks[:i] + [toks[i], ' ', toks[i]] + toks[i + 1:]))   # duplicate
    for a, b in zip(words, words[1:]):
        t2 = list(toks)
        t2[a], t2[b] = t2[b], t2[a]
        out.append(''.join(t2))                                          # swap adjacent
    for i in range(len(toks) + 1):
        if i == 0 or not toks[i - 1].isspace():
            for ins in INSERT_TOKENS:
                out.append(''.join(toks[:i]) + ins + ''.join(toks[i:]))  # insert
    res, seen = [], set()
    for t in out:
        if t not in seen and t != text:
            seen.add(t)
            res.append(t)
    return res


# ---------------------------------------------------------------- shared unit enumeration
DEPTH = {'quick': 3, 'thorough': 4}


def plss_units(tier):
    """Work units of the PLSSDesc part of the shared space (soup + soup2 + damage + specials)."""
    us = []
    nv = len(V)
    if tier == 'quick':
        for f in range(nv):
            for half in range(2):
                us.append({'k': 'soup', 'first': f, 'second': None, 'half': half})
    else:
        for f in range(nv):
            for s in range(nv):
                us.append({'k': 'soup', 'first': f, 'second': s})
        for f in range(nv):
            us.append({'k': 'soup', 'first': f, 'second': -1})   # length 1 (and the empty string for f == 0)
    for part in range(8):
        us.append({'k': 'soup2', 'part': part, 'of': 8})
    for n in range(16):
        for half in range(2):
            us.append({'k': 'damage', 'seed': n, 'half': half})
    us.append({'k': 'specials'})
    return us


def unit_cases(unit, tier):
    """Yield (text, mode) for a unit produced by plss_units()."""
    import zlib
    k = unit['k']
    if k == 'soup':
        depth = DEPTH[tier]
        m1 = modes(1)
        f, s = unit['first'], unit['second']
        if s is None:
            texts = soup_texts(f, depth)
            if f == 0:
                texts = [''] + texts
            texts = texts[unit['half']::2]
        elif s == -1:
            texts = [V[f]] + ([''] if f == 0 else [])
        else:
            pre = V[f] + ' ' + V[s]
            texts = [pre]
            for L in range(1, depth - 1):
                for seq in itertools.product(V, repeat=L):
                    texts.append(pre + ' ' + ' '.join(seq))
        for text in texts:
            for mode in m1:
                yield text, mode
    elif k == 'soup2':
        m2 = modes(2)[len(modes(1)):]
        texts = ['']
        for f in range(len(V)):
            texts += soup_texts(f, 2)
        for text in texts:
            if zlib.crc32(text.encode()) % unit['of'] != unit['part']:
                continue
            for mode in m2:
                yield text, mode
    elif k == 'damage':
        layout, si, seed = seeds()[unit['seed']]
        m1 = modes(1)
        d1 = damage1(seed)
        texts = [seed] + d1
        if tier == 'thorough' and unit['seed'] % 4 == 0:
            seen = set(texts)
            for t1 in d1[::7]:
                for t2 in damage1(t1)[::5]:
                    if t2 not in seen:
                        seen.add(t2)
                        texts.append(t2)
        texts = texts[unit['half']::2]
        for text in texts:
            for mode in m1:
                yield text, mode
    elif k == 'specials':
        for text in SPECIALS:
            for mode in modes(2):
                yield text, mode
    else:
        raise ValueError(k)


def space_text(tier):
    return (f"token soup depth <= {DEPTH[tier]} over {len(V)} tokens x {len(modes(1))} modes; depth <= 2 x "
            f"{len(modes(2))} modes; {1 if tier == 'quick' else 2} damage edit(s) of 16 seeds x {len(modes(1))} modes; "
            f"{len(SPECIALS)} special strings x {len(modes(2))} modes")


def mode_by_name(name):
    return next(m for m in modes(2) if m[0] == name)
