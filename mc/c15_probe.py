"""
Probe battery of C15.  Imported by the check's workers and also run as a script in a *fresh interpreter*
(`python -m mc.c15_probe <ns> <ew>`) to obtain the reference observations for given MasterConfig defaults.
"""
import json
import sys
import warnings


# A Config object that the *caller* keeps and hands to several objects (set by an event of the check; absent in a fresh
# interpreter, where the probe builds its own).  The library must treat it as read-only: "settings" are what the caller wrote.
SHARED = {}


def probe(pytrs):
    P = pytrs
    out = []
    cfg = SHARED.get('cfg')
    if cfg is None:
        cfg = P.Config('n,w')
    out.append(cfg.decompile_to_text())
    d = P.PLSSDesc('T154-R97 Sec 14: N/2, NE, Lot 1', config=cfg)
    out.append([[t.trs, t.desc, t.lots, t.qqs, t.pp_desc] for t in d.tracts])
    d.parse_tracts()
    out.append([[t.trs, t.lots, t.qqs] for t in d.tracts])
    t = P.Tract('N/2, NE', trs='154n97w14', config=cfg)
    t.parse()
    out.append([t.lots, t.qqs, t.pp_desc])
    out.append(cfg.decompile_to_text())
    for txt, cfg in [
        ('T154-R97 Sec 14: NE/4', None),
        ('T154N-R97W Sec 14: Lots 1, 1, N/2NE/4, Sec 15: W/2', None),
        ('154-97 Sec 1: ALL', None),            # not a recognised Twp/Rge: stays an error tract
        ('NE/4 of Section 14, T154N-R97', None),
        ('T154-R97 Sec 14: NE/4, T154S-R97E Sec 14: NE/4', 'segment'),
        ('Township 154, Range 97 West, Sections 1 - 3: Lot 1(40.00), N/2 of Lot 2', 'clean_qq,qq_depth.1'),
        ('T154-R97 Sec 14: NE/4', 's,e'),
        # texts whose result would change if an optional mode (ocr_scrub, clean_qq, sec_within, segment, colon modes,
        # forced layout, depth settings) of an *earlier* parse were still in force
        ('Township lS4 North, Range 97 West\nSection 14: NE/4', None),
        ('TI54N-R97W Sec 14: NE, N/2 of Lot 1, N/2NE/4NE/4', None),
        ('T154N-R97W That part of the NE/4 of Sec 14 lying north of the river', None),
        ('T154N-R97W Sec 14 NE/4, Sec 15: W/2, NW/4 of Sec 16, T155N-R97W', None),
    ]:
        d = P.PLSSDesc(txt, parse_qq=True, config=cfg)
        out.append([[t.trs, t.twp, t.rge, t.sec, t.twp_num, t.twp_ns, t.rge_num, t.rge_ew, t.sec_num, t.desc, t.lots, t.qqs,
                     sorted(t.lot_acres.items()), t.w_flags, t.e_flags] for t in d.tracts]
                   + [d.pp_desc, d.w_flags, d.e_flags, d.current_layout])
        out.append(d.list_trs())
        out.append(sorted((str(k), [t.trs for t in v]) for k, v in d.group_by('twprge').items()))
        out.append(d.tracts_to_dict('trs', 'lots', 'qqs', 'w_flags'))
    t = P.Tract.from_twprgesec('NE/4', 154, 97, 14, parse_qq=True)
    out.append([t.trs, t.twp_ns, t.rge_ew, t.qqs])
    out.append(P.Tract.from_twprgesec('NE/4', '154', '97e', '14', config='s').trs)
    out.append(P.TRS.from_twprgesec('154', '97w', 1).trs)
    out.append(P.TRS.from_twprgesec(154, 97, 14).trs)
    for s in ['154n97w14', '154s97e14', '154n97e14', '1154n97w14', 'XXXzXXXzXX', '', '154n97w', '154nXXXz14', '___z97w__',
              '154N97W14', '154n97wxx', '154nxxxz14', 'xxxzxxxzxx', '___Z97w__']:
        t = P.TRS(s)
        out.append([t.trs, t.twp, t.rge, t.sec, t.twp_num, t.rge_num, t.sec_num, t.twp_undef, t.is_error(), t.pretty_twprge()])
        out.append(sorted(P.trs_to_dict(s).items(), key=str))
        out.append(sorted(P.TRS.trs_to_dict(s).items(), key=str))
        out.append(P.Tract('x', trs=s).trs)
    # existing objects pointed at another Twp/Rge/Sec (the setter consults the cache, or not, depending on its state)
    t = P.TRS('154n97w14')
    t.trs = '155n98w01'
    out.append([t.trs, t.twp, t.rge, t.sec, t.twp_num, t.sec_num])
    t = P.TRS()
    r = t.set_twprgesec(154, 97, 14)
    out.append([r, t.trs, t.twp, t.twp_num, t.sec_num, t.is_undef() if hasattr(t, 'is_undef') else None])
    t.trs = '1s2e05'
    out.append([t.trs, t.twp, t.rge_num])
    tr = P.Tract('NE/4', trs='154n97w14')
    tr.trs = '1s2e05'
    out.append([tr.trs, tr.twp, tr.sec_num])
    r = tr.set_twprgesec(7, 8, 9)
    out.append([r, tr.trs, tr.twp, tr.rge, tr.sec])
    out.append(P.find_twprge('T154-R97 and T1S-R2', preprocess=True))
    out.append(P.find_twprge('T154N-R97W and T1S-R2E'))
    out.append(P.find_sec('Sec 1 - 3, 5'))
    ts = [P.Tract('x', trs=s) for s in ['154n97w14', '154n97w01', '1s2e05']]
    tl = P.TractList(reversed(ts))
    tl.custom_sort('i')
    out.append([t.trs for t in tl])
    tl.custom_sort('t.ns,s')
    out.append([t.trs for t in tl])
    out.append(P.Config('n,w,clean_qq,qq_depth.2').decompile_to_text())
    tr = P.Tract('Lots 1 - 3, N/2NE/4', trs='154n97w14', parse_qq=True, config='qq_depth.1')
    out.append([tr.lots, tr.qqs, tr.pp_desc])
    return json.loads(json.dumps(out, default=repr))


if __name__ == '__main__':
    warnings.simplefilter('ignore')
    import os
    repo = os.environ.get('PYTRS_VERIF_REPO', '/repo')
    sys.path.insert(0, repo)
    import pytrs
    assert os.path.realpath(pytrs.__file__).startswith(os.path.realpath(repo) + os.sep)
    pytrs.MasterConfig.default_ns = sys.argv[1]
    pytrs.MasterConfig.default_ew = sys.argv[2]
    print(json.dumps(probe(pytrs)))
