"""
Entry point behind /verif/check:   check <ID> [--tier quick|thorough] [--replay FILE]

Exit codes: 0 property held on everything explored (known findings are printed as
KNOWN-FINDING lines); 1 at least one VIOLATION line was printed; 2 harness error
(no VIOLATION line: vacuity guard, nondeterminism, worker failure).
"""
import argparse
import importlib
import json
import os
import random
import subprocess
import sys
import time
from collections import Counter

from . import core
from .core import VERIF, h64, jdump

KNOWN_FILE = os.path.join(VERIF, 'known_findings.txt')


def load_known(pid):
    """-> (known: {sig: (what, case)}, fixed: [line])"""
    known, fixed = {}, []
    if not os.path.exists(KNOWN_FILE):
        return known, fixed
    for line in open(KNOWN_FILE, encoding='utf-8'):
        line = line.rstrip('\n')
        if not line.strip() or line.startswith('#'):
            continue
        if line.startswith('fixed:'):
            if f'property={pid} ' in line:
                fixed.append(line)
            continue
        if line.startswith('known:'):
            head, what, case = [x.strip() for x in line[len('known:'):].split(' | ', 2)]
            fields = dict(f.split('=', 1) for f in head.split(' ', 1))
            if fields.get('property') != pid:
                continue
            known[fields['sig']] = (what, json.loads(case))
    return known, fixed


def write_replay(pid, v):
    d = os.path.join(VERIF, 'replays', pid)
    os.makedirs(d, exist_ok=True)
    name = f"{h64(v['sig']):016x}.json"
    path = os.path.join(d, name)
    doc = {
        'property': pid, 'class': v['cls'], 'signature': v['sig'],
        'case': v['case'], 'observed': v.get('got'), 'expected': v.get('exp'),
        'note': v.get('note', ''),
        'replay_cmd': f"./check {pid} --replay replays/{pid}/{name}",
    }
    with open(path, 'w', encoding='utf-8') as f:
        json.dump(doc, f, indent=1, ensure_ascii=False, default=repr)
    return path


def rerun_units(modname, tier, path):
    """Child mode: run the units in FILE sequentially, print their obs digests."""
    mod = importlib.import_module(modname)
    if hasattr(mod, 'worker_init'):
        mod.worker_init(tier)
    units = json.load(open(path, encoding='utf-8'))
    out = []
    for u in units:
        r = mod.run_unit(u, tier)
        out.append([r['obs'], r['n'], sorted(set(v['sig'] for v in r['viol']))])
    print('RERUN ' + json.dumps(out))


def main(argv=None):
    ap = argparse.ArgumentParser()
    ap.add_argument('pid')
    ap.add_argument('--tier', default=None)
    ap.add_argument('--replay', default=None)
    ap.add_argument('--rerun-units', default=None)
    ap.add_argument('--no-evidence', action='store_true')
    a = ap.parse_args(argv)
    pid = a.pid.upper()
    tier = a.tier or os.environ.get('VERIF_TIER') or 'quick'
    if tier not in ('quick', 'thorough'):
        tier = 'quick'
    seed = int(os.environ.get('VERIF_SEED', '0') or 0)
    modname = f"mc.props.{pid.lower()}"

    if a.rerun_units:
        rerun_units(modname, tier, a.rerun_units)
        return 0

    mod = importlib.import_module(modname)

    if a.replay:
        doc = json.load(open(a.replay, encoding='utf-8'))
        if hasattr(mod, 'worker_init'):
            mod.worker_init(tier)
        if isinstance(doc['case'], dict) and 'harness_unit' in doc['case']:
            try:
                mod.run_unit(doc['case']['harness_unit'], tier)
                viols = []
            except BaseException as ex:  # noqa
                site = core.library_site(ex)
                if site is None:
                    raise
                viols = [{'cls': 'library_exception_outside_oracle', 'got': f"{type(ex).__name__}: {ex}", 'note': site}]
        else:
            viols = mod.replay(doc['case'])
        if viols:
            for v in viols:
                print(f"  {v['cls']}: got={v.get('got')!r} exp={v.get('exp')!r} {v.get('note','')}")
            print(f"VIOLATION property={pid} replay={a.replay}")
            return 1
        print(f"replay of {a.replay}: property holds on this case")
        return 0

    t0 = time.time()
    known, fixed = load_known(pid)
    rng = random.Random(seed)

    # ---- known findings are replayed first, directly --------------------
    known_seen = {}
    if known:
        # replay in a child so that the parent stays pytrs-free before forking
        for sig, (what, case) in known.items():
            tmp = os.path.join(VERIF, '.work')
            os.makedirs(tmp, exist_ok=True)
            p = os.path.join(tmp, f"kf_{os.getpid()}.json")
            json.dump({'case': case}, open(p, 'w'))
            r = subprocess.run(
                [sys.executable, '-m', 'mc.runner', pid, '--replay', p, '--tier', tier],
                cwd=VERIF, capture_output=True, text=True)
            os.unlink(p)
            known_seen[sig] = (r.returncode == 1)

    units = mod.units(tier)
    order = list(range(len(units)))
    rng.shuffle(order)
    units_run = [units[i] for i in order]

    tot = {
        'n': 0, 'nontrivial': 0, 'keysum': 0, 'states': 0, 'transitions': 0,
    }
    outcomes = set()
    guards = Counter()
    vclasses = Counter()
    extra = Counter()
    viols = []
    samples_pool = []
    unit_obs = {}

    def on_result(idx, res):
        tot['n'] += res['n']
        tot['nontrivial'] += res['nontrivial']
        tot['keysum'] = (tot['keysum'] + res['keysum']) & 0xFFFFFFFFFFFFFFFF
        tot['states'] += res['states']
        tot['transitions'] += res['transitions']
        if len(outcomes) < 2_000_000:
            outcomes.update(res['outcomes'])
        guards.update(res['guards'])
        vclasses.update(res['vclasses'])
        extra.update(res['extra'])
        viols.extend(res['viol'])
        if len(samples_pool) < 200:
            samples_pool.extend(res['samples'])
        unit_obs[idx] = (res['obs'], res['n'], sorted(set(v['sig'] for v in res['viol'])))
        if res.get('notes') and len(notes) < 20000:
            notes.extend(res['notes'])

    notes = []
    timeouts = []
    deadline = getattr(mod, 'UNIT_DEADLINE', {'quick': 300.0, 'thorough': 1800.0})[tier]
    pool = core.Pool(modname, tier, unit_deadline=deadline)
    errors = pool.run(units_run, on_result, on_timeout=timeouts.append, max_timeouts=getattr(mod, 'MAX_TIMEOUTS', 6))
    for idx in timeouts:
        if hasattr(mod, 'on_unit_timeout'):
            viols.extend(mod.on_unit_timeout(units_run[idx]))
        else:
            errors.append(f"unit {idx} exceeded the {deadline}s deadline twice: {jdump(units_run[idx])[:300]}")

    # ---- determinism: same units, second process, other hash seed --------
    determinism = {'units_rerun': 0, 'identical': True}
    if not errors and unit_obs and not getattr(mod, 'SKIP_DETERMINISM', False):
        pick = sorted(unit_obs)[:getattr(mod, 'RERUN_UNITS', 3)]
        pick += [i for i in sorted(unit_obs) if unit_obs[i][2] and i not in pick][:5]
        tmp = os.path.join(VERIF, '.work')
        os.makedirs(tmp, exist_ok=True)
        p = os.path.join(tmp, f"rerun_{pid}_{os.getpid()}.json")
        json.dump([units_run[i] for i in pick], open(p, 'w'))
        env = dict(os.environ, PYTHONHASHSEED=str(1 + seed % 1000))
        r = subprocess.run(
            [sys.executable, '-m', 'mc.runner', pid, '--tier', tier, '--rerun-units', p],
            cwd=VERIF, capture_output=True, text=True, env=env)
        os.unlink(p)
        line = [l for l in r.stdout.splitlines() if l.startswith('RERUN ')]
        if r.returncode != 0 or not line:
            errors.append('determinism re-run failed:\n' + r.stdout[-2000:] + r.stderr[-2000:])
        else:
            got = json.loads(line[0][6:])
            determinism['units_rerun'] = len(pick)
            for i, g in zip(pick, got):
                if tuple(g) != (unit_obs[i][0], unit_obs[i][1], unit_obs[i][2]):
                    determinism['identical'] = False
                    errors.append(
                        f"NONDETERMINISM: unit {i} gave different observations in a second "
                        f"process (PYTHONHASHSEED changed): {unit_obs[i]} vs {g}")

    # ---- vacuity guards --------------------------------------------------
    guard_problems = []
    if hasattr(mod, 'guards') and not errors:
        info = dict(tot, outcomes=len(outcomes), guards=guards, extra=extra, tier=tier,
                    vclasses=vclasses)
        guard_problems = mod.guards(info) or []

    # ---- classify violations --------------------------------------------
    by_sig = {}
    for v in viols:
        by_sig.setdefault(v['sig'], v)
    new = {s: v for s, v in by_sig.items() if s not in known}
    for s in by_sig:
        if s in known:
            known_seen[s] = True
    for sig, (what, case) in known.items():
        if known_seen.get(sig):
            print(f"KNOWN-FINDING: property={pid} {what}")
        else:
            print(f"note: listed finding no longer reproduces: property={pid} {what}")

    replay_paths = []
    ranked = sorted(new, key=lambda s: (len(jdump(new[s]['case'])), s))
    percls = {}
    for s_ in ranked:
        percls.setdefault(new[s_]['cls'], []).append(s_)
    chosen = []
    while len(chosen) < 25 and any(percls.values()):
        for cls_ in sorted(percls):
            if percls[cls_] and len(chosen) < 25:
                chosen.append(percls[cls_].pop(0))
    for sig in chosen:
        path = write_replay(pid, new[sig])
        replay_paths.append(path)
        v = new[sig]
        print(f"  [{v['cls']}] case={jdump(v['case'])[:400]} got={jdump(v.get('got'))[:300]} "
              f"exp={jdump(v.get('exp'))[:300]} {v.get('note','')}")
        print(f"VIOLATION property={pid} replay={os.path.relpath(path, VERIF)}")
    if len(new) > 25:
        print(f"  ... {len(new) - 25} further distinct violation signatures not printed")

    wall = time.time() - t0
    space = mod.space(tier) if hasattr(mod, 'space') else {}
    states = tot['states'] + int(space.get('states', 0))
    if getattr(mod, 'STATES_FROM_OUTCOMES', False):
        states = len(outcomes)
    transitions = tot['transitions'] + int(space.get('transitions', 0))
    caps = list(space.get('caps_hit', []))
    if getattr(pool, 'aborted', False):
        caps.append(f"exploration cut short after {len(timeouts)} work units had to be killed at the deadline twice; "
                    f"{len(units) - len(unit_obs) - len(timeouts)} units were not explored")
    if len(outcomes) >= 2_000_000:
        caps.append('distinct_outcomes counter saturated at 2,000,000')
    rs = random.Random(seed)
    samples = rs.sample(samples_pool, min(5, len(samples_pool))) if samples_pool else []
    evidence = {
        'property_id': pid,
        'tier': tier,
        'seed': seed,
        'level': mod.LEVEL,
        'coverage': {
            'states': max(states, 0),
            'transitions': max(transitions, 0),
            'traces_validated_against_impl': tot['n'],
            'samples': samples,
            'evaluations': tot['n'],
            'distinct_nontrivial': tot['nontrivial'],
            'rule': mod.RULE,
            'exhaustive': (not caps) and not errors,
            'bound': space.get('bound', ''),
            'caps_hit': caps,
            'distinct_outcomes': len(outcomes),
            'enumeration_digest': f"{tot['keysum']:016x}",
            'units': len(units),
            'vacuity_guards': dict(guards),
            'violation_classes': dict(vclasses),
            'known_findings_reproduced': sorted(s for s, ok in known_seen.items() if ok),
            'fixed_findings_listed': fixed,
            'determinism': determinism,
            'extra': dict(extra),
            'extra_info': (mod.evidence_extra(notes) if hasattr(mod, 'evidence_extra') else {}),
            'repo': core.REPO,
        },
        'assumptions': list(mod.ASSUMPTIONS),
        'wall_s': round(wall, 2),
        'violations': len(new),
    }
    if not a.no_evidence and core.REPO == '/repo':
        os.makedirs(os.path.join(VERIF, 'evidence'), exist_ok=True)
        with open(os.path.join(VERIF, 'evidence', f'{pid}.json'), 'w', encoding='utf-8') as f:
            json.dump(evidence, f, indent=1, ensure_ascii=False, default=repr)
            f.write('\n')

    print(f"{pid} tier={tier} seed={seed} units={len(units)} executions={tot['n']} "
          f"states={states} transitions={transitions} distinct_outcomes={len(outcomes)} "
          f"violations={len(new)} known={sum(1 for s in known_seen.values() if s)} "
          f"digest={tot['keysum']:016x} wall={wall:.1f}s")
    if new:
        return 1
    if errors or guard_problems:
        for e in errors:
            print('HARNESS-ERROR: ' + e)
        for g in guard_problems:
            print('HARNESS-ERROR (vacuity guard): ' + g)
        return 2
    return 0


if __name__ == '__main__':
    sys.exit(main())
