#!/bin/sh
# run_all.sh [tier] : run every check (sequentially), print one summary line each
cd "$(dirname "$0")" || exit 2
tier="${1:-quick}"
rc=0
for n in 01 02 03 04 05 06 07 08 09 10 11 12 13 14 15 16 17 18 19 20; do
  out=$(./check C$n --tier "$tier" 2>&1); r=$?
  echo "$out" | grep -E '^(VIOLATION|KNOWN-FINDING|HARNESS-ERROR)' | head -5
  echo "$out" | tail -1 | sed "s/^/[exit $r] /"
  [ $r -ne 0 ] && rc=1
done
exit $rc
